#!/bin/bash
# tools/silent_seeds.sh [seeds...] : every quick check on the unchanged tree under several VERIF_SEED values, from fresh processes
cd /verif
seeds="${@:-0 1 2 3}"
bad=0
for sd in $seeds; do
  for id in C01 C02 C03 C04 C05 C06 C07 C08 C09 C10 C11 C12 C13 C14 C15 C16 C17 C18 C19 C20; do
    out=$(VERIF_SEED=$sd VF_EVIDENCE_DIR=/dev/shm/silent_ev ./check $id --tier quick 2>&1); rc=$?
    if [ $rc -ne 0 ] || echo "$out" | grep -q "^VIOLATION\|^KNOWN-FINDING\|INFRASTRUCTURE"; then echo "seed=$sd $id rc=$rc :: $(echo "$out" | tail -2 | tr '\n' ' ' | cut -c1-200)"; bad=1; else echo "seed=$sd $id ok $(echo "$out" | tail -1 | grep -o 'wall=[0-9.]*s')"; fi
  done
done
rm -rf /dev/shm/silent_ev
exit $bad
