#!/bin/bash
# tools/mkwt.sh <dir> : scratch worktree of /repo HEAD with the extension built in place
set -e
d="$1"
rm -rf "$d"
git -C /repo worktree add -q --detach "$d" HEAD
cd "$d"
CYTHONIZE_SETUP_PY=1 /venv/bin/python setup.py build_ext --inplace >/dev/null 2>&1
rm -rf build
ls src/catii/*.so >/dev/null
echo "ready $d"
