#!/usr/bin/env python3
"""Print the seeded-change detection table (markdown) from seeded/*/meta.json and seeded/RESULTS.json."""
import json
import os

HERE = os.path.dirname(os.path.dirname(os.path.abspath(__file__)))
S = os.path.join(HERE, "seeded")
res = json.load(open(os.path.join(S, "RESULTS.json")))
rows = []
for sid in sorted(os.listdir(S)):
    mp = os.path.join(S, sid, "meta.json")
    if not os.path.exists(mp):
        continue
    m = json.load(open(mp))
    r = res.get(sid, {}).get("quick", {})
    caught = [c for c, v in sorted(r.items()) if v.get("rc") == 1 and v.get("violation")]
    missed = [c for c, v in sorted(r.items()) if v.get("rc") == 0]
    other = [c for c, v in sorted(r.items()) if v.get("rc") not in (0, 1)]
    site = "; ".join((r[c].get("site") or "")[:70] for c in caught[:1])
    rows.append((sid, m["property"], m["change"][:150], m.get("needs_to_manifest", "")[:110], ",".join(caught) or "-", ",".join(missed) or "-", ",".join(other) or "-", site))
print("| seed | property | change | needs | caught by (quick) | not caught by | first violation site |")
print("|---|---|---|---|---|---|---|")
for r in rows:
    print("| %s | %s | %s | %s | %s | %s%s | %s |" % (r[0], r[1], r[2].replace("|", "/"), r[3].replace("|", "/"), r[4], r[5], ("" if r[6] == "-" else " (error: %s)" % r[6]), r[7].replace("|", "/")))
print()
print("%d seeds; %d caught by the quick check of their own property." % (len(rows), sum(1 for r in rows if r[1] in r[4].split(","))))
