#!/usr/bin/env python3
"""tools/importseed.py <wave-label> <agent dir> <A|B> <new seed id> <property> <missed:0|1> "<change>" "<needs>" [also_run,...]
Copies an agent-made, confirmed seed (seedX.diff, demoX.py, NOTES.md, the evalseed RESULT line) into /verif/seeded/<id>/."""
import json
import os
import shutil
import sys

wave, d, L, sid, prop, missed, change, needs = sys.argv[1:9]
also = sys.argv[9].split(",") if len(sys.argv) > 9 and sys.argv[9] else []
here = os.path.dirname(os.path.dirname(os.path.abspath(__file__)))
out = os.path.join(here, "seeded", sid)
os.makedirs(out, exist_ok=True)
shutil.copy(os.path.join(d, "seed%s.diff" % L), os.path.join(out, "patch.diff"))
shutil.copy(os.path.join(d, "demo%s.py" % L), os.path.join(out, "demo.py"))
base = os.path.basename(d.rstrip("/"))
evlog = os.path.join(os.path.dirname(d.rstrip("/")), "eval%s_%s%s.log" % (wave, base, L))
result = ""
if os.path.exists(evlog):
    result = next((l.strip() for l in open(evlog) if l.startswith("RESULT")), "")
notes = open(os.path.join(d, "NOTES.md")).read() if os.path.exists(os.path.join(d, "NOTES.md")) else ""
meta = {
    "id": sid, "property": prop,
    "origin": "independent sub-agent (wave %s: property text, scratch worktree, one-line descriptions of earlier changes; brief: waves 7-8 a performance/memory optimisation PR; waves 9-10 a bug-fix, feature or refactoring PR; wave 11 needs scale, an unusual legal input representation, or a rarely used documented option; wave 12 shows only through a pipeline of three or more public operations on the same objects; waves 13-14: anything unlike all earlier changes; waves 15-16: a clause of the statement or a branch of the anchored code that no listed change touches)" % wave,
    "change": change, "needs_to_manifest": needs,
    "confirmed": {"how": "tools/evalseed.sh (demo passes clean / fails patched; full baseline suite vs BASELINE stable_pass)", "result": result},
    "first_missed_by_the_check_of_the_time": bool(int(missed)),
    "agent_notes_excerpt": notes[:1800],
}
if also:
    meta["also_run"] = also
json.dump(meta, open(os.path.join(out, "meta.json"), "w"), indent=1)
print("imported", sid)
