#!/bin/bash
# tools/suite_on_patch.sh <patch.diff> : run the repository's full suite on a scratch worktree with the patch; print the comparison with BASELINE stable_pass
patch="$(realpath "$1")"
d=$(mktemp -d /tmp/suite.XXXXXX)
/verif/tools/mkwt.sh "$d/wt" >/dev/null || exit 2
cd "$d/wt"
git apply "$patch" || { echo "$(basename $patch) NOAPPLY"; git -C /repo worktree remove --force "$d/wt"; rm -rf "$d"; exit 3; }
if git diff --name-only | grep -q pyx; then CYTHONIZE_SETUP_PY=1 /venv/bin/python setup.py build_ext --inplace >/dev/null 2>&1; rm -rf build; fi
PYTHONPATH=$d/wt/src timeout 3000 /venv/bin/python -m pytest -q -p no:cacheprovider --timeout=900 --continue-on-collection-errors --junitxml="$d/junit.xml" >"$d/suite.log" 2>&1
echo "$(basename $patch) :: $(python3 /verif/tools/baseline_compare.py "$d/junit.xml" | head -3 | tr '\n' ' ')"
git -C /repo worktree remove --force "$d/wt"; rm -rf "$d"
