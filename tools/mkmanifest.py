#!/usr/bin/env python3
"""Regenerate MANIFEST.json from the table below (keeps it valid at all times)."""
import json
import os
import sys

HERE = os.path.dirname(os.path.dirname(os.path.abspath(__file__)))

# id -> (level, engine, technique, level_text, level_note, design_ref)
CHECKS = {
    "C01": (
        "exploration", "enum",
        "bounded-exhaustive enumeration of small arrays x value embeddings x all construction/read-back options, plus a parametrised family reaching the row-scan strategy; identity oracle",
        "Every array of up to 5 cells-per-axis bounds over a 3-value abstract alphabet is embedded at every dtype boundary (255/256, 65535/65536, 2^31, 2^32, 2^62, "
        "negatives) and crossed with every option combination (common omitted/each/absent, counts, five mappings incl. many-to-one, five read-backs); a second family "
        "(80-120 cells, >=5 values, <=5% uncommon at every slot subset) reaches the row-scan strategy, confirmed by line coverage. 1.3M round trips in the quick tier.",
        "Non-negative data values in [2^31,2^33) only in a handful of cases (bincount over 16 GiB); INT64_MAX excluded (NumPy bincount overflow).",
        "7 (C01)",
    ),
    "C02": (
        "exploration", "enum",
        "bounded-exhaustive enumeration of dimension lists (0..4 dims, 1..3 axes, every common incl. absent, explicit and inferred shape) vs brute-force contingency table",
        "For each listed configuration every data array and every common value per dimension is enumerated (79k cubes quick), so every combination of sparsity "
        "pattern and common choice - which is what the marginal-differencing identity must survive - is decided within the bounds, through both report formats.",
        "Rows <= 3-4, categories <= 2-3 (+ boundary extents 256/257/65536/65537); indexes built by the harness builder.",
        "7 (C02)",
    ),
    "C13": (
        "exploration", "enum",
        "bounded-exhaustive enumeration of dimension lists with extra axes (unequal extents, two multi-axis dims, 3-axis indexes) x all data x all commons; block-vs-subcube oracle",
        "For every listed configuration every data array and common value is enumerated; the result shape must be extra extents (dimension order, then axis order) + "
        "category extents, every block must equal the library's own cube over the harness-sliced 1-D dimensions, and the two cube types must agree. Unequal extents "
        "(2 vs 3, 1 vs 4) make any transposed or mis-ordered axis observable.",
        "N <= 2-3 rows, 2 categories; 3-axis indexes built by the harness builder.",
        "7 (C13)",
    ),
    "C16": (
        "model_checking", "sched",
        "stateless preemption-bounded exploration of ALL schedules of the pooled fill tasks of the real cube code (baton scheduler on sys.monitoring LINE/INSTRUCTION events, model ThreadPool conformance-checked against the real one); bit-for-bit comparison with the serial result",
        "Every schedule with up to 1 preemption at line and at bytecode-instruction granularity (thorough: 2 at line granularity, pool sizes 1,2,3,4,16) of 3-4-task "
        "harnesses on both cube types with 1-3 aggregates computed together (incl. (values, validity) facts hiding real numbers, so that lazily applied masks matter) is executed on the real code with fresh objects and compared bit-for-bit with serial evaluation; "
        "the number of distinct task completion orders is reported to show the exploration is not vacuous.",
        "Model pool replaces multiprocessing.pool.ThreadPool (chunking/FIFO/all-chunks-finish/first-recorded-failure; checked against the real pool on recording task sets); "
        "true parallelism inside GIL-releasing sections is only sampled by the free-running supplement.",
        "5",
    ),
    "C20": (
        "model_checking", "sched",
        "exhaustive fault enumeration over every callback invocation index (serial) and every subset of invocations x every schedule within the preemption bound (pooled), on the real cube code",
        "Serial: every invocation index of the interrupt callback on cubes with 1,2,3,4,6 sub-cubes of both types; pooled: every subset of invocation ordinals crossed with every "
        "schedule up to the preemption bound. calculate must raise one of the very objects raised, the callback must be consulted once per sub-cube, and re-evaluating the same "
        "cube and aggregate objects afterwards must equal a fresh evaluation bit-for-bit.",
        "Exception-derived interrupts only; model pool as in C16.",
        "5.5",
    ),
    "C17": (
        "model_checking", "calls",
        "explicit-state BFS over call histories of aggregate evaluations with full object-state hashing, plus the argument-immutability invariant on every transition of the index state graph",
        "Index methods: on every transition of the C06 fixpoint graph the receiver of non-mutating methods and every argument must be byte-identical. Aggregates: all call "
        "histories to depth 2 (3 in thorough) over an alphabet of every ordered selection of 1..2(3) of 17+39 function objects on 8 cubes (twins with equal output shape, cubes with another row count) plus shortcut methods; each "
        "result must equal each aggregate evaluated alone on fresh objects bit for bit, arrays returned by earlier calls must stay intact, caller-owned arrays must be byte-identical (snapshotted before any object is constructed), and the hash of the entire reachable "
        "object state is tracked: it never changes, so every event is a self-loop and depth 1 decides all histories over the alphabet.",
        "Diagnostic counters are excluded from the state hash (they never feed an output: supported dynamically).",
        "4.3, 6",
    ),
    "C18": (
        "exploration", "enum",
        "bounded-exhaustive enumeration of array cubes x fact/weight/missing patterns x probabilities; textbook per-cell statistics in plain Python as oracle",
        "Every data vector (D<=2, N<=4-5) is crossed with missing patterns, weight patterns, policies and both report formats for stddev, quantile (7 probabilities; weighted: "
        "three relations), min/max over float/int/datetime facts, covariance and correlation; each cell is compared with the statistic computed from its own rows.",
        "Zero weights excluded for stddev/quantile/covariance; undefined matrix entries (<2 rows, zero variance) not compared.",
        "7 (C18)",
    ),
    "C14": (
        "exploration", "enum",
        "bounded-exhaustive enumeration of 1..4 one-axis dimensions x all data x all commons; multiset oracle from the set comprehension in the statement",
        "Every data vector and common value for 1..4 dimensions (N<=3, E=2; deeper in thorough) is walked through interactions(), walk(f) and walk([f,g]); the "
        "delivered (coords, rows) multiset must equal the comprehension, so a missing or duplicated marginal combination cannot cancel.",
        "Well-formed one-axis dimensions only.",
        "7 (C14)",
    ),
    "C03": (
        "exploration", "enum",
        "bounded-exhaustive enumeration of cubes x calls; three-way agreement of index cube, array cube and a plain-Python per-cell group-by",
        "Every data vector and every common value per dimension (0..3 dims, <=3-4 rows, 2-3 categories) is crossed with every call in a structured space: 4 aggregates x "
        "2 policies x weights (none, scalars 2/0/NaN, arrays over {positive,0,missing}^N, (values,validity) forms) x facts (1-3 columns, 4 representations, missing "
        "patterns); the array cube is given int64 data with explicit shape and the unsigned dtype an index converts to with inferred shape. ~0.8M library evaluations quick, ~50M thorough.",
        "Row counts <= 4; fact values from exact alphabets; weights below the documented zero-snapping threshold excluded.",
        "3, 7 (C03)",
    ),
    "C04": (
        "exploration", "enum",
        "bounded-exhaustive enumeration of C03's call space x five report formats; missing rule evaluated on the rows of each cell",
        "For every cube and call of the bounded space both cube types are evaluated under NaN, (0,False), (-1,False), (7,False) and plain 0; the missing set must equal "
        "the rule computed from the rows of each cell, pair validity must describe the same set, values must agree on non-missing cells and plain 0 must be 0 on missing cells.",
        "valid_count with plain 0 under propagation excluded as documented; sentinel storage not compared.",
        "7 (C04)",
    ),
    "C05": (
        "exploration", "enum",
        "bounded-exhaustive metamorphic enumeration: every combination of per-dimension re-encodings via shift_common vs. the base encoding",
        "For every data vector and call, every combination (v_1..v_D) in (0..E+1)^D of common values (incl. two values absent from the data) is applied with the "
        "library's own shift_common and the cube output must equal the base; then re-normalised and compared again; dense content must be unchanged.",
        "Explicit shape contains every common value used.",
        "7 (C05)",
    ),
    "C06": (
        "model_checking", "hist",
        "explicit-state BFS to fixpoint over all reachable index states under the full operation alphabet, real methods vs NumPy dense model in lock-step",
        "All concrete index states reachable within (rows<=2, cols<=2; thorough: up to 4 rows / 3 columns with a value bound on the larger shapes) are enumerated to a fixpoint (3.6k states, 0.9M transitions quick; 15k states, 15M transitions thorough), "
        "so every history of ANY length whose intermediate states stay inside the bounds is covered, not histories up to a depth; each transition executes the real method "
        "on an object rebuilt from the state key and is compared with the NumPy model (dense content, operands untouched, no shared storage for requested copies, and - by mutating every derived result in place - no aliasing back into its sources), so model traces are validated against the implementation on every step.",
        "State key abstracts dict insertion order (checked in thorough by expanding each state in both orders); set-update operands respect the exclusivity precondition.",
        "4",
    ),
    "C07": (
        "model_checking", "hist",
        "explicit-state BFS to fixpoint (same graph as C06); well-formedness invariant evaluated on every reached state",
        "On every state produced by any transition of the fixpoint graph: validate(True) plus the range, arity, non-emptiness and no-common-entry conditions it does not "
        "check, and abscissae / sparsity / inferred cube shape against the dense model. A violating transition is reported with its history and not expanded.",
        "Same bounds and key abstraction as C06.",
        "4.3",
    ),
    "C15": (
        "model_checking", "hist",
        "explicit-state BFS to fixpoint (same graph as C06); most-frequent-common invariant after normalising transitions; ==/!= over all (neighbour) pairs of reached states",
        "After every library-chosen normalisation in the graph the common value must be a most frequent value of the dense model; every reached state must == its "
        "harness-built twin with != the exact negation; after the search a == b iff (shape, common, dense) coincide over all pairs in small shape buckets and all neighbour pairs in large ones.",
        "Large shape buckets are compared on neighbour pairs (same dense/different common, one-cell difference, reflexive with opposite insertion order) rather than all pairs.",
        "4.3",
    ),
    "C08": (
        "exploration", "enum",
        "bounded-exhaustive enumeration of all operand pairs/lists over small universes vs. set-algebra reference model",
        "Exhaustive over every ordered pair of subsets of a 7/9-value universe and of a 6/8-value boundary universe (0, 2^31-1, 2^31, "
        "2^32-1 ...) for the three kernels and the None-aware wrappers, and every list of 0..k subsets for the multi-way union. The kernels "
        "only compare elements and lengths, so all interleaving/exhaustion patterns with <=9 elements are decided, not sampled.",
        "Python set algebra is the oracle; arrays longer than the universe and lengths >= 2^31 are outside the bound.",
        "3, 7 (C08)",
    ),
    "C09": (
        "exploration", "enum",
        "bounded-exhaustive enumeration on a bounds-checked rebuild of the working-tree .pyx (IndexError monitor), plus ASan rebuild in thorough",
        "The same exhaustive pair/list space as C08 is executed on a rebuild of the working-tree kernels with boundscheck switched on, so "
        "every out-of-range memoryview access in any exhaustion order is observed; thorough repeats it under AddressSanitizer on the unmodified source.",
        "Only accesses through the typed memoryviews (bc build) and heap accesses of the module (ASan) are observed; NumPy internals are trusted.",
        "2.1, 7 (C09)",
    ),
    "C10": (
        "exploration", "enum",
        "bounded-exhaustive enumeration of entry dicts over a word-size-boundary alphabet, real save/load on tmpfs, identity oracle",
        "Exhaustive over arity 1..4 x 0..2(3) entries x coordinate alphabet {0,255,256,65535,65536,2^32-1,2^32,2^63-1} on every axis position x "
        "every common from the same alphabet x every assignment of five row-id shapes (incl. empty, 2^32-1): the coupling of coordinate width, "
        "common width, arity and empties is enumerated completely, which is where a mis-sized field would corrupt later fields.",
        "Row-id arrays limited to five shapes; files on tmpfs; equality through both the library's == and an element-wise comparison.",
        "7 (C10)",
    ),
    "C11": (
        "exploration", "enum",
        "bounded-exhaustive enumeration vs. an independent encoder/decoder written from the format docstring (both directions, all admissible word sizes)",
        "For every C10 input the saved bytes must equal an independent struct.pack encoder's bytes, an independent decoder must recover the input, "
        "and the library loader must recover it from independently encoded files in every admissible index/row-id word size; the size word is "
        "checked for row-id totals crossing 2^30 and 2^32 with sparse stand-in arrays. Symmetric writer/reader changes cannot hide.",
        "The IndxIO class docstring is the specification; >=2^30 totals exercise size arithmetic only.",
        "7 (C11)",
    ),
    "C12": (
        "fault_enumeration", "enum",
        "exhaustive crash-point enumeration: every strict prefix of every file of the C10 family is loaded and must raise",
        "Every file of the bounded family is truncated at every byte position 0..len-1 (30M crash points in the quick tier) and IndxIO.load must "
        "raise for each; a load that returns is reported with (input, cut).",
        "A crash leaves a prefix (no block reordering/holes), as the statement says.",
        "7 (C12)",
    ),
    "C19": (
        "exploration", "enum",
        "exhaustive enumeration of every cell/edge/corner of the partition of the (max,min) plane induced by the AST constants, vs numpy.iinfo oracle",
        "fit_dtype is AST-checked to be a pure threshold ladder, so it is constant on each cell of the partition induced by its constants; the "
        "grid contains every constant +-1, every +-2^k(+-1) up to 2^64 and an interior point per gap, so every cell is decided.",
        "If the AST check fails the evidence downgrades the claim to 'all grid points'.",
        "7 (C19)",
    ),
}

TEXT_OVERRIDES = {
 "C01": "Every array of the listed small shapes over a 3-value abstract alphabet is embedded at every dtype boundary (255/256, 65535/65536, 2^31, 2^32, 2^62, negatives next to signed boundaries) and crossed with every option combination (common omitted/each/absent, counts - the caller's own dict, which must stay intact -, five mappings incl. many-to-one, five read-backs, two input dtypes); a LAYOUT family adds Fortran-ordered, strided, reversed and uint64 inputs and zero-column shapes; a ROW-SCAN family (79-120 rows, >=5 values, <=5% uncommon cells at every slot subset, C and Fortran order, all-to-one mappings) reaches the second construction strategy on both sides of its threshold, confirmed by line coverage. 1.8M round trips in the quick tier.",
 "C03": "Every data vector and every common value per dimension (0..3 dims, <=3-4 rows, 2-3 categories) is crossed with every call in a structured space: 4 aggregates x 2 policies x weights (none, scalars 2/0/NaN, arrays over {positive,0,missing}^N with dyadic and with decimal weights, (values,validity) forms) x facts (1-3 columns, 4 representations, missing patterns); the array cube is given int64 and int8 data with explicit shape and the unsigned dtype an index converts to with inferred shape; WIDE cubes (up to 65537 categories, strides and cell counts crossing and inside the upper half of the uint8/uint16 ranges, every narrow signed/unsigned dtype) are compared sparsely. ~0.9M library evaluations quick, ~50M thorough.",
 "C20": "Serial: every invocation index of the interrupt callback (and pairs) on cubes with 1,2,3,4,6,8 sub-cubes of both types incl. all-common slices; pooled: every subset of invocation ordinals (singletons/first+last/all for 8 sub-cubes) crossed with every schedule up to the preemption bound. calculate must raise one of the very objects raised, the callback must be consulted once per sub-cube when nothing is interrupted (never more than once otherwise), and re-evaluating the same cube and aggregate objects afterwards - pooled and serially - must equal a fresh evaluation bit-for-bit.",
 "C02": "For each listed configuration every data array and every common value per dimension is enumerated (83k cubes quick), so every combination of sparsity pattern and common choice - which is what the marginal-differencing identity must survive - is decided within the bounds, through both report formats; a LONG family (20 rows: a run of 9..19 rows against one or two rows at every position, both orders, a third dimension) reaches the merge kernels' length-ratio shortcuts.",
 "C05": "For every data vector and call, every combination (v_1..v_D) in (0..E+1)^D of common values (incl. two values absent from the data) is applied with the library's own shift_common and the cube output must equal the base; then re-normalised and compared again; dense content must be unchanged. Additionally ONE set of index objects is evaluated, re-expressed in place through the whole list of combinations and re-evaluated after each step, so that anything an index or cube memoises must follow the common value.",
 "C06": 'All concrete index states reachable within (rows<=2, cols<=2; thorough: up to 4 rows / 3 columns with a value bound on the larger shapes) are enumerated to a fixpoint (3.6k states, 0.94M transitions quick; 15k states, 15M transitions thorough), so every history of ANY length whose intermediate states stay inside the bounds is covered, not histories up to a depth; each transition executes the real method on an object rebuilt from the state key and is compared with the NumPy model (dense content, operands untouched, no shared storage for requested copies, and - by mutating every derived result in place - no aliasing back into its sources); from every state, additionally, every reader is used, the SAME object is changed in place and every reader is used again (stale memoised state). Model traces are validated against the implementation on every step.',
 "C07": 'On every state produced by any transition of the fixpoint graph: validate(True) plus the range, arity, non-emptiness and no-common-entry conditions it does not check, and abscissae / sparsity / inferred cube shape against the dense model. A violating transition is reported with its history and not expanded. Construction from arrays is decided on BOTH strategies of from_array (every small array x embedding x common x counts x mapping; the 79..120-cell row-scan arrays): 148k results must satisfy the same invariants.',
 "C08": 'Exhaustive over every ordered pair of subsets of a 7/9-value universe and of a 6/8-value boundary universe (0, 2^31-1, 2^31, 2^32-1 ...), each pair as contiguous arrays and as non-contiguous (strided) views, for the three kernels and the None-aware wrappers; every (long contiguous run with at most one hole) x (1-2 sparse probes) pair in both orders; every ordered pair of structured sets (dense, evens, odds, multiples of three, shifted, two far blocks) with lengths on either side of 16..128 (..1024 thorough) and 1-3 element probes against each (block / SIMD / galloping / bisecting shortcuts); every list of 0..k subsets for the multi-way union. The kernels only compare elements and lengths, so all interleaving/exhaustion patterns within the bounds are decided, not sampled.',
 "C10": 'Exhaustive over arity 1..4 x 0..2(3) entries x coordinate alphabet {0,255,256,65535,65536,2^32-1,2^32,2^63-1} on every axis position x every common from the same alphabet x every assignment of five row-id shapes (incl. empty, 2^32-1): the coupling of coordinate width, common width, arity and empties is enumerated completely, which is where a mis-sized field would corrupt later fields; plus files whose entries have very different lengths (0..70000 row ids, every ordered pair and short/long/short triples), where batching or streaming writers and per-file readers go wrong.',
 "C11": "For every C10 input (incl. the mixed-length files) the saved bytes must equal an independent struct.pack encoder's bytes, an independent decoder must recover the input, and the library loader must recover it from independently encoded files in every admissible index/row-id word size (incl. 1- and 2-byte row-id words whose row-id count exceeds the word); saving with 1/2/8-byte row-id dtypes must either be refused or produce the documented layout; the size word is checked for row-id totals crossing 2^30 and 2^32 with sparse stand-in arrays. Symmetric writer/reader changes cannot hide.",
 "C12": 'The real writer runs on an unbuffered file whose content is snapshotted at every file-object method call and every source line of indxio.py (4M observed write steps quick); every content a crash can leave between two snapshots, and every prefix 0..len-1 of every finished file of the bounded family (plus four files of 4-17 KiB and the file of every initial state of the index state graph; 30M crash points in the quick tier) is handed to IndxIO.load, which must raise; a load that returns is reported with (input, cut or write step).',
 "C14": 'Every data vector and common value for 1..4 dimensions (N<=3, E=2; deeper in thorough), a LONG family (18-24 rows: a long run against sparse rows), a POPULOUS family (17..70(260) rows, many rows in every cell, every ordered pair of six row patterns) and an EMPTY-ENTRY family are walked through interactions(), walk(f) and walk([f,g]); the delivered (coords, rows) multiset, read after the walk has finished, must equal the comprehension in the statement with strictly increasing row ids, so a missing, duplicated, mis-ordered or later-overwritten combination cannot hide.',
 "C15": 'After every library-chosen normalisation in the fixpoint graph - and, beyond the graph, for shift_common()/filtered/append/collapsed on every array of the shapes (3,2), (4,2), (2,3), (5,) and for from_array with every mapping/counts option - the common value must be a most frequent value; every reached state must == its harness-built twin with != the exact negation; a == b iff (shape, common, dense) coincide over all pairs in small shape buckets, all neighbour pairs in large ones, ALL pairs of the indexes of shape (3,), (4,), (3,2) over a small alphabet x every common, and three single-component variants of every state; every state compared with nine kinds of non-index operands incl. same-key plain dicts is unequal.',
 "C16": 'Every schedule with up to 1 preemption at line and at bytecode-instruction granularity (thorough: 2 at line granularity, pool sizes 1,2,3,4,16) of 3-8-task harnesses on both cube types with 1-3 aggregates computed together (incl. (values, validity) facts hiding real numbers, so that lazily applied masks matter) is executed on the real code with fresh objects and compared bit-for-bit with serial evaluation; the number of distinct task completion orders is reported to show the exploration is not vacuous. The model pool is conformance-checked against the stdlib pool. Supplement (sampling, reported as such): free-running real threads on the same harnesses, every kernel on 400 000-element arrays in four real threads, and a 200 000-row 12-sub-cube cube on the real pool - the GIL-free sections a cooperative scheduler cannot interleave.',
 "C17": "Index methods: on every transition of the C06 fixpoint graph the receiver of non-mutating methods and every argument must be byte-identical. Aggregates: all call histories to depth 2 (3 in thorough) over an alphabet of every ordered selection of 1..2(3) of 17+41 function objects on 10 cubes (twins with equal output shape, cubes with another row count, dimensionless cubes that hand fill() the object's whole arrays) plus shortcut methods; each result must equal each aggregate evaluated alone on fresh objects bit for bit, arrays returned by earlier calls must stay intact, caller-owned arrays must be byte-identical (snapshotted before any object is constructed), and the hash of the entire reachable object state is tracked: it never changes, so every event is a self-loop and depth 1 decides all histories over the alphabet.",
 "C18": "Every data vector (D<=2, N<=4-5) is crossed with missing patterns, weight patterns (incl. single zero weights and (0-filled, validity) weights for the quantile's missing rule), policies and both report formats for stddev (also on a large-offset and a constant-decimal column against an exact rational oracle), quantile (7 probabilities; weighted: three relations), min/max over float/int/datetime facts (validity pair and NaT-marked), covariance and correlation; int8/int16/uint8 dimension arrays on 200- and 40000-cell cubes; one dimension of 100..300 categories under a three-column fact (cell x column numbering in narrow coordinates); each cell is compared with the statistic computed from its own rows.",
 "C19": 'fit_dtype is AST-checked to be a pure threshold ladder, so it is constant on each cell of the partition induced by its constants; the grid contains every constant +-1, every +-2^k(+-1) up to 2^64 and an interior point per gap, so every cell is decided. The caller whose counter must reach the number of columns - collapsed() - is run on indexes with 127..257 (thorough ..65537) columns, five value triples and five precedence orders.',
}

TEXT_ADDENDA = {'C01': ' Second-day additions: nested lists / tuples, read-only and every narrower integer dtype as input; a many-to-one read-back mapping; row-scan arrays of 16 385 / 20 000 / 70 000 cells (block sizes of a chunked scan). Afterlife: every built index is read in full, appended to another index twice, has an entry emptied and is re-expressed - and must still convert back to the array it stands for after each step. Row-scan embeddings with neighbouring distinct values half a dtype range apart (INT64_MIN next to 0; -128 / 100 / 127 in int8); constant columns with an explicit common that differs from the value. The caller overwrites the array an earlier to_array() returned and converts again; a read-back mapping that sends the stored common value to 0.', 'C02': ' A two-axis dimension of 300 .. 1 500 (5 000) columns crossed with a flat one; a quarter of the LONG family with every stored row-id array as a non-contiguous view. One cube object is asked again after each in-place change of its first dimension (another common value, a whole entry removed, a cell changed), next to a cube built after the change. A share of the multi-axis cubes is also counted with the worker pool switched on (real pool, default size and 7 workers).', 'C03': ' REPRESENTATION family (float32, read-only, Fortran, strided, integer weights, list / int32 dimensions over every data vector of three small shapes) and SCALE family (300 .. 20 001 (150 000) rows, three designs incl. a two-column dimension) against the same oracle; inferred array-cube shapes on the wide cubes. Index cubes over dimensions that went through IndxIO, were re-laid-out, or come out of append / filtered / sliced / reindexed / shift_common pipelines; one cube object asked again after in-place changes of its first dimension.', 'C04': ' RESIDUE family (12 rows, decimal weights, empty reconstructed cells), one wide dimension (100 / 200 / 300 categories) under a three-column fact with missing values, and single-precision facts / weights.', 'C05': ' The same combinations are reached through iindex.from_array(array, common=v); the count is also taken with the INFERRED cube shape; a SCALE family re-expresses two dimensions of 700 / 20 001 (70 001) rows through all 25 pairs of common values. One cube object built before the first re-expression is asked after every step; one tally per dimension is handed to successive from_array calls; re-expressed dimensions also go through IndxIO.save / load on the way to the cube.', 'C06': ' Beyond the graph (vf/bigops.py): entry-wise updates with row ids in seven representations over every row subset of two small indexes, collapsed(precedence, mapping) over every small array, and indexes of 128 .. 1 025 columns / 20 000 .. 70 000 rows through every operation once. Object lifetimes: from every state one object is read in full (incl. a cube built over it and an INDX save), changed in place (shift_common, append, update, count-preserving swaps followed by a shift, entry-wise set algebra) in four storage layouts (built, strided, read-only, loaded from INDX) and read again (incl. the cube built before the change and a save / load); alias checks run in both directions and include set algebra on the result; operations after filtered(mask, mask.sum()). reindexed with an explicitly empty mapping (the identity). INDX-NARROW family: indexes saved with 8 / 16-bit row-id words whose entries list more cells than the word counts, loaded and rebuilt.', 'C07': ' The same invariants on the bigops families of C06 (representations of row ids, collapsed with a mapping, wide / tall indexes). Well-formedness is also required after the read-change-read transitions in all four layouts, and of SOURCES after their results were changed (shared buffers). The operand of append is re-examined after the call (well-formed, same key) and an index appended to itself joins the alphabet; the construction family runs as three parallel parts. A rare value mapped onto the common one on the row-scan path of from_array; the INDX-NARROW family of C06.', 'C08': ' Operands of 65 535 / 65 536 / 65 537 elements against short ones; unions of up to 300 inputs. Every pair of views of one buffer (same start and length, different strides) for every kernel. Two long operands with 65 537 / 131 073 common elements; arrays returned by earlier kernel calls are kept alive and re-read.', 'C09': ' A GUARD-PAGE pass runs the UNMODIFIED kernels in a child process with every operand flush against PROT_NONE pages on both sides, contiguous and as reversed views (1M calls quick): accesses that bypass memoryview indexing fault there. Two long operands with 65 537 / 131 073 common elements (results that outgrow any initial buffer).', 'C10': ' Every seventh case is also saved with NumPy-scalar coordinates / common value and read-only, strided or reversed-view row-id arrays. What earlier loads returned must stay intact while later files are loaded; a live iindex is saved, changed in place and saved again. Saving over a longer existing file (every tail length 1..9) and loading the result. Every fifth case is preceded by failed loads of its own torn file.', 'C11': ' Every fifth case is also saved with NumPy integer scalars of six types as coordinates and common value and must give the same bytes. The byte comparison also with strided and reversed row-id arrays handed to the saver. Row ids in the other byte order (>u4): the writer may refuse, a file it writes must be the documented bytes.', 'C12': ' Every eighth file (every seventh cut of the larger ones) is also loaded through a handle opened for update, which must reject it and leave its length alone; one larger file has 280 KiB. The complete file is loaded successfully (and the result dropped) before its torn versions are tried.', 'C13': " The array cube's own statistics (max/min, quantile, stddev, covariance, corrcoef) are checked block by block as well, and the array cube over the same dimensions in Fortran order, as a transposed view of axes-first data and as nested lists must give the same result. One index cube is asked again after in-place changes of a multi-axis dimension; the array cube is evaluated repeatedly over the narrow unsigned arrays an index converts to, which must stay untouched. The cubes of the first and last menu call are also evaluated with the worker pool switched on (real pool, default size; 7 workers for the first call).", 'C14': ' MANY family: 1 500 - 4 000 (20 000) rows over dimensions of 70 / 150 / 200 categories with a row-wise oracle; every third POPULOUS case with non-contiguous row-id arrays. Dimensions with read-only row ids and dimensions rebuilt from IndxIO.load results. The same cube object is walked again after a walk.', 'C15': ' from_array on arrays of 1 000 .. 131 077 (2^20) cells whose winner is decided by the last 40% of the cells. One tally is handed to successive from_array calls, also for arrays with five or more distinct values. A result that stands for the right array and that validate() accepts must compare equal to its twin (even when C07 objects to it); equality is re-observed after every in-place change.', 'C16': " Harnesses at scale (70 000 rows with three aggregates; 1 296 sub-cubes) on the default schedule, a harness built with tracing=False, bytecode granularity on an array cube. Cubes re-evaluated in pooled mode after an in-place change of their first dimension (@reuse harnesses). Histories: the explored body may be 'evaluation cut short by StopIteration from the callback, then pooled evaluation' (@afterint). Harnesses whose squares overflow (x3huge; x2huge with two preemptions): process-global floating-point / warning state touched inside workers.", 'C17': " Function objects listed twice in one pass, dimensionless cubes; index side: row ids in seven representations, collapsed(precedence, mapping), and from_array's array / counts (content and key order) / mapping on both construction strategies stay untouched. Stale state between calls on one index object (memoised readers, cached extents, cubes that snapshot a dimension) is reported here when found by the read-change-read transitions. Cubes with a no-op check_interrupt installed (cK / xK); POKE checks: the caller edits NaN positions / values of an argument array in place between two identical calls and the second answer must equal a fresh evaluation. Cubes with the working shape of cA / xA split differently (cS / xS) and an array cube over dimension arrays already in its narrow dtype (xU).", 'C18': ' min / max over uint8 / uint16 / uint64 / int16 / int32 / float32 facts as well. SHARED-ARGS pass: one set of fact arrays handed to weighted stddev (missing weight), stddev under a pair weight, plain stddev, quantile, min, max, covariance in turn, each compared with the answer for freshly built arguments.', 'C19': ' The INDX coordinate word of files whose largest coordinate and common value run independently over the width boundaries must be the narrowest that holds both. The dense output dtype of to_array after every in-place change (union_update, difference_update, set_if, item assignment, shift_common, append, update) that crosses a width or sign boundary. MAPPED-DENSE family: to_array through a value mapping that does or does not mention the common value (13 commons x 7 target pairs): no error, no wrap, narrowest dtype when everything is mentioned.', 'C20': " The interrupt is raised as 16 more exception classes; 'stops' includes that no sub-cube task is left queued on the pool when calculate raises (lazily failing imap in the model pool); harnesses at scale (70 000 rows: once per sub-cube also with several aggregates; 1 296 sub-cubes) and with tracing=False. Every serial case is also run on a cube that has already completed an evaluation. After every interrupted run the same objects are interrupted again by an exception of another class (serial: last invocation; pooled: first), which must propagate as that object; two / all invocations raising for each of the exception classes, StopIteration also with one preemption."}

NOT_YET = "check not built yet (work in progress in this session; see DESIGN.md section 11 for order)"

ALL = ["C%02d" % i for i in range(1, 21)]


def main():
    checks = []
    for pid in ALL:
        if pid not in CHECKS:
            continue
        level, engine, tech, text, note, ref = CHECKS[pid]
        text = TEXT_OVERRIDES.get(pid, text) + TEXT_ADDENDA.get(pid, "")
        checks.append({
            "property_id": pid,
            "quick_cmd": "./check %s --tier quick" % pid,
            "thorough_cmd": "./check %s --tier thorough" % pid,
            "evidence_file": "/verif/evidence/%s.json" % pid,
            "replay_cmd_template": "./check %s --replay {path}" % pid,
            "engine": engine,
            "level_claimed": {"category": level, "text": text, "design_ref": "DESIGN.md section " + ref},
            "level_note": note,
            "technique": tech,
        })
    man = {
        "version": 1,
        "setup_cmd": "/venv/bin/python -m vf.build plain bc",
        "hooks": {
            "guard": "CATII_VERIF",
            "enable": "no source hooks are needed: checks import catii from /repo/src with kernels rebuilt from the working-tree .pyx (vf/build.py); seams used are public attributes (cube.parallel, poolsize, check_interrupt, xcube.pool_class, multiprocessing.pool.ThreadPool)",
            "baseline_off_cmd": "cd /repo && /venv/bin/python -m pytest -ra -q -p no:cacheprovider --timeout=900 --continue-on-collection-errors",
            "source_commits": [],
            "add_only": True,
        },
        "engines": [
            {"name": "enum", "path": "vf/core.py", "serves_properties": [p for p in ALL if p in CHECKS and CHECKS[p][1] == "enum"],
             "kind_free_text": "bounded-exhaustive enumeration of a finite case space, sharded over 16 processes, against a reference model"},
            {"name": "hist", "path": "vf/hist.py", "serves_properties": [p for p in ALL if p in CHECKS and CHECKS[p][1] == "hist"],
             "kind_free_text": "explicit-state BFS to fixpoint over histories of real iindex operations with a dense NumPy model in lock-step"},
            {"name": "sched", "path": "vf/sched.py", "serves_properties": [p for p in ALL if p in CHECKS and CHECKS[p][1] == "sched"],
             "kind_free_text": "stateless preemption-bounded schedule exploration of the real cube code under a baton scheduler (sys.monitoring) and a model thread pool"},
            {"name": "calls", "path": "vf/calls.py", "serves_properties": [p for p in ALL if p in CHECKS and CHECKS[p][1] == "calls"],
             "kind_free_text": "explicit-state BFS over call histories with full object-state hashing"},
        ],
        "checks": checks,
        "not_applicable": [{"property_id": p, "reason": NOT_YET} for p in ALL if p not in CHECKS],
        "notes": "All checks: ./check <ID> --tier quick|thorough; replay: ./check <ID> --replay <file>. Known/fixed findings: known_findings.json.",
    }
    with open(os.path.join(HERE, "MANIFEST.json"), "w") as f:
        json.dump(man, f, indent=1)
        f.write("\n")
    try:
        import jsonschema

        sch = json.load(open(os.path.join(HERE, "schemas", "MANIFEST.schema.json")))
        jsonschema.validate(man, sch)
        print("MANIFEST.json valid; %d checks, %d not_applicable" % (len(checks), len(man["not_applicable"])))
    except ImportError:
        print("MANIFEST.json written (jsonschema not available to validate)")


if __name__ == "__main__":
    main()
