#!/usr/bin/env python3
"""tools/fill123.py <log> [<log> ...]: put the thorough-tier table (tools/thoroughtable.py) between the markers of DESIGN.md section 12.3."""
import os
import subprocess
import sys

HERE = os.path.dirname(os.path.dirname(os.path.abspath(__file__)))
rows = subprocess.run([sys.executable, os.path.join(HERE, "tools", "thoroughtable.py")] + sys.argv[1:], capture_output=True, text=True).stdout
table = "| check | what the thorough run covered (its own summary line) | wall | violations |\n|---|---|---|---|\n" + rows
p = os.path.join(HERE, "DESIGN.md")
s = open(p).read()
a, b = "<!-- THOROUGH-TABLE-BEGIN -->\n", "<!-- THOROUGH-TABLE-END -->"
i, j = s.index(a) + len(a), s.index(b)
open(p, "w").write(s[:i] + table + s[j:])
print("rows:", rows.count("\n"))
