#!/usr/bin/env python3
"""Compare a junit xml of the repository's suite with /root/.vp/BASELINE.json's stable_pass list."""
import json
import sys
import xml.etree.ElementTree as ET

base = json.load(open("/root/.vp/BASELINE.json"))
stable = base["stable_pass"]
if isinstance(stable, str):
    import ast
    stable = ast.literal_eval(stable)
stable = set(stable)
root = ET.parse(sys.argv[1]).getroot()
status = {}
for tc in root.iter("testcase"):
    tid = "%s::%s" % (tc.get("classname"), tc.get("name"))
    bad = any(ch.tag in ("failure", "error") for ch in tc)
    skipped = any(ch.tag == "skipped" for ch in tc)
    status[tid] = "fail" if bad else ("skip" if skipped else "pass")
missing = sorted(t for t in stable if t not in status)
# benchmarks/__init__.py calls pytest.xfail() when a wall-clock threshold is exceeded (machine load): junit records that as "skipped"
timing = sorted(t for t in stable if t.startswith("benchmarks.") and status.get(t) == "skip")
broken = sorted(t for t in stable if status.get(t) not in ("pass",) and t in status and t not in timing)
newpass = sorted(t for t, s in status.items() if s == "pass" and t not in stable)
print("stable_pass=%d present=%d still_passing=%d broken=%d missing=%d benchmark_timing_xfail=%d newly_passing=%d" % (len(stable), len(stable) - len(missing), len(stable) - len(missing) - len(broken) - len(timing), len(broken), len(missing), len(timing), len(newpass)))
for t in broken[:40]:
    print("BROKEN", t, status[t])
for t in missing[:10]:
    print("MISSING", t)
sys.exit(1 if broken or missing else 0)
