#!/bin/bash
# tools/tryseed.sh <patch.diff> <tier> <ID> [<ID>...]
# Apply a patch to a scratch worktree of /repo HEAD and run the given checks against it (VERIF_REPO).
# Prints one line per check: <ID> rc=<rc> <last line>
patch="$(realpath "$1")"; tier="$2"; shift 2
d=$(mktemp -d /tmp/tryseed.XXXXXX)
git -C /repo worktree add -q --detach "$d/wt" HEAD || exit 2
if ! git -C "$d/wt" apply "$patch"; then echo "PATCH DOES NOT APPLY: $patch"; git -C /repo worktree remove --force "$d/wt"; rm -rf "$d"; exit 3; fi
cd /verif
for id in "$@"; do
  out=$(VERIF_REPO="$d/wt" VF_EVIDENCE_DIR="$d/ev" timeout 1800 ./check "$id" --tier "$tier" 2>&1); rc=$?
  echo "$id rc=$rc :: $(echo "$out" | grep -E '^VIOLATION|^INFRA' | head -1) :: $(echo "$out" | tail -1 | cut -c1-200)"
done
git -C /repo worktree remove --force "$d/wt"; rm -rf "$d"
