#!/usr/bin/env python3
"""Run the registered checks against every seeded change under /verif/seeded and record which checks catch it.

usage: tools/seedtable.py [--tier quick] [--jobs 3] [--only ID-prefix] [--checks C06,C07]
For every seed: a scratch worktree of /repo HEAD, `git apply patch.diff`, then `./check <ID>` with VERIF_REPO pointing
at the worktree and VF_EVIDENCE_DIR at a scratch directory (the committed evidence is not touched).
Results are merged into seeded/RESULTS.json and printed as a markdown table.
"""
import argparse
import concurrent.futures
import json
import os
import shutil
import subprocess
import tempfile

HERE = os.path.dirname(os.path.dirname(os.path.abspath(__file__)))
SEEDED = os.path.join(HERE, "seeded")


def run_seed(sid, checks, tier):
    d = os.path.join(SEEDED, sid)
    patch = os.path.join(d, "patch.diff")
    tmp = tempfile.mkdtemp(prefix="seedtable.")
    wt = os.path.join(tmp, "wt")
    out = {}
    try:
        subprocess.check_call(["git", "-C", "/repo", "worktree", "add", "-q", "--detach", wt, "HEAD"])
        r = subprocess.run(["git", "-C", wt, "apply", patch], capture_output=True, text=True)
        if r.returncode != 0:
            return sid, {c: {"rc": None, "note": "patch does not apply: " + r.stderr[:200]} for c in checks}
        for c in checks:
            env = dict(os.environ, VERIF_REPO=wt, VF_EVIDENCE_DIR=os.path.join(tmp, "ev"))
            p = subprocess.run(["./check", c, "--tier", tier], cwd=HERE, env=env, capture_output=True, text=True, timeout=7200)
            lines = p.stdout.splitlines()
            site = next((l for l in lines if l.startswith("site=") or l.startswith("harness=") or l.startswith("mode=")), "")
            out[c] = {"rc": p.returncode, "violation": any(l.startswith("VIOLATION") for l in lines), "site": site[:200], "last": (lines[-1] if lines else "")[:200]}
    finally:
        subprocess.run(["git", "-C", "/repo", "worktree", "remove", "--force", wt], capture_output=True)
        shutil.rmtree(tmp, ignore_errors=True)
    return sid, out


def main():
    ap = argparse.ArgumentParser()
    ap.add_argument("--tier", default="quick")
    ap.add_argument("--jobs", type=int, default=3)
    ap.add_argument("--only", default="")
    ap.add_argument("--checks", default="")
    ap.add_argument("--missing", action="store_true", help="only seeds without a recorded result for this tier")
    a = ap.parse_args()
    seeds = sorted(s for s in os.listdir(SEEDED) if os.path.isdir(os.path.join(SEEDED, s)) and s.startswith(a.only))
    respath = os.path.join(SEEDED, "RESULTS.json")
    results = json.load(open(respath)) if os.path.exists(respath) else {}
    if a.missing:
        seeds = [x for x in seeds if a.tier not in results.get(x, {})]
    jobs = []
    with concurrent.futures.ThreadPoolExecutor(a.jobs) as ex:
        for sid in seeds:
            meta = json.load(open(os.path.join(SEEDED, sid, "meta.json")))
            checks = a.checks.split(",") if a.checks else [meta["property"]] + meta.get("also_run", [])
            jobs.append(ex.submit(run_seed, sid, checks, a.tier))
        for j in concurrent.futures.as_completed(jobs):
            sid, out = j.result()
            results.setdefault(sid, {}).setdefault(a.tier, {}).update(out)
            print(sid, {c: (v["rc"], v.get("site", "")[:80]) for c, v in out.items()}, flush=True)
    json.dump(results, open(respath, "w"), indent=1, sort_keys=True)


if __name__ == "__main__":
    main()
