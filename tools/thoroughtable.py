#!/usr/bin/env python3
"""tools/thoroughtable.py <log> [<log> ...]: markdown rows (check | summary line of the thorough run | wall) from `vp run` sweep logs."""
import re
import sys

rows = {}
for path in sys.argv[1:]:
    for line in open(path, errors="replace"):
        m = re.match(r"(C\d\d) tier=thorough (.*)", line.strip())
        if not m:
            continue
        pid, rest = m.groups()
        wall = re.search(r"wall=([\d.]+)s", rest)
        viol = re.search(r"violations=(\d+)", rest)
        keep = []
        for tok in rest.split():
            k = tok.split("=")[0]
            if k in ("outcomes", "known_hits", "violations", "wall", "other_props", "changed", "object_state_hashes"):
                continue
            keep.append(tok)
        rows[pid] = ("%s" % " ".join(keep)[:400], wall.group(1) if wall else "?", viol.group(1) if viol else "?", path)
for pid in sorted(rows):
    s, w, v, path = rows[pid]
    print("| %s | %s | %s s | %s |" % (pid, s.replace("|", "/"), w, "0" if v == "0" else "**%s**" % v))
