#!/usr/bin/env python3
"""Replace the text between the SEEDTABLE markers of DESIGN.md with the output of tools/designtable.py."""
import os
import subprocess

here = os.path.dirname(os.path.dirname(os.path.abspath(__file__)))
table = subprocess.check_output(["python3", os.path.join(here, "tools", "designtable.py")], text=True)
p = os.path.join(here, "DESIGN.md")
s = open(p).read()
b, e = "<!-- SEEDTABLE:BEGIN -->", "<!-- SEEDTABLE:END -->"
i, j = s.index(b) + len(b), s.index(e)
open(p, "w").write(s[:i] + "\n" + table + s[j:])
