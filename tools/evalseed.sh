#!/bin/bash
# tools/evalseed.sh <seed dir> <letter> <tier> <ID> [<ID>...]  : confirm an agent-made seed and run checks on it
# steps: patch applies; demo passes clean / fails patched; full suite vs BASELINE stable_pass (605); checks via VERIF_REPO
sd="$1"; L="$2"; tier="$3"; shift 3
patch="$sd/seed$L.diff"; demo="$sd/demo$L.py"
d=$(mktemp -d /tmp/evalseed.XXXXXX)
/verif/tools/mkwt.sh "$d/wt" >/dev/null || { echo "worktree failed"; exit 2; }
cd "$d/wt"
cp "$demo" "$d/wt/demo.py"
PYTHONPATH=$d/wt/src timeout 600 /venv/bin/python demo.py >"$d/demo_clean.log" 2>&1; rc_clean=$?
if ! git apply "$patch"; then echo "RESULT $(basename $sd)$L patch=NOAPPLY"; git -C /repo worktree remove --force "$d/wt"; rm -rf "$d"; exit 3; fi
if git diff --name-only | grep -q pyx; then CYTHONIZE_SETUP_PY=1 /venv/bin/python setup.py build_ext --inplace >/dev/null 2>&1; rm -rf build; fi
PYTHONPATH=$d/wt/src timeout 600 /venv/bin/python demo.py >"$d/demo_seed.log" 2>&1; rc_seed=$?
PYTHONPATH=$d/wt/src timeout 3000 /venv/bin/python -m pytest -q -p no:cacheprovider --timeout=900 --continue-on-collection-errors --junitxml="$d/junit.xml" >"$d/suite.log" 2>&1
suite=$(python3 /verif/tools/baseline_compare.py "$d/junit.xml" | head -1)
echo "RESULT $(basename $sd)$L demo_clean_rc=$rc_clean demo_seed_rc=$rc_seed suite: $suite"
cd /verif
for id in "$@"; do
  out=$(VERIF_REPO="$d/wt" VF_EVIDENCE_DIR="$d/ev" timeout 3000 ./check "$id" --tier "$tier" 2>&1); rc=$?
  echo "CHECK $(basename $sd)$L $id rc=$rc :: $(echo "$out" | grep -E '^VIOLATION|^INFRA' | head -1 | sed 's#replay=/tmp[^ ]*##') :: $(echo "$out" | grep -E '^(site|detail)=' | head -2 | tr '\n' ' ' | cut -c1-300)"
done
git -C /repo worktree remove --force "$d/wt"; rm -rf "$d"
