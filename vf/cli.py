"""./check <ID> --tier quick|thorough [--all] | --replay <path>"""
import argparse
import importlib
import json
import os
import sys
import time

from . import boot, build, core


def main(argv=None):
    ap = argparse.ArgumentParser()
    ap.add_argument("prop")
    ap.add_argument("--tier", default=None, choices=["quick", "thorough"])
    ap.add_argument("--replay", default=None)
    ap.add_argument("--all", action="store_true", help="do not stop at the first violation; group them by site")
    ap.add_argument("--nproc", type=int, default=None)
    a = ap.parse_args(argv)
    tier = a.tier or os.environ.get("VERIF_TIER") or "quick"
    if tier not in ("quick", "thorough"):
        tier = "quick"
    pid = a.prop.upper()
    try:
        mod = importlib.import_module("vf.props." + pid.lower())
    except ImportError as e:
        print("no such check: %s (%s)" % (pid, e))
        return 2
    t0 = time.time()
    os.environ.pop("VF_SCRATCH", None)
    core.scratch_dir()
    if getattr(mod, "EARLY_POOL_PATCH", False) and not a.replay:
        # substitute the model pool BEFORE catii is imported, so that the cube modules pick it up however they reference the
        # stdlib pool (attribute lookup at call time, `from multiprocessing.pool import ThreadPool`, a class attribute ...)
        import multiprocessing.pool

        from . import conformance, sched  # conformance captures the real pool first

        multiprocessing.pool.ThreadPool = sched.ModelPool
    try:
        boot.load(getattr(mod, "VARIANT", "plain"))
    except build.BuildError as e:
        print("INFRASTRUCTURE: cannot build kernels from the working tree: %s" % e)
        return 2
    except Exception as e:
        import traceback

        traceback.print_exc()
        print("INFRASTRUCTURE: cannot import catii from the working tree: %r" % (e,))
        return 2

    if a.replay:
        with open(a.replay) as f:
            v = json.load(f)
        if isinstance(v.get("case"), dict) and "crash_block" in v["case"]:
            # re-execute the block in a child process: the finding is that the interpreter dies
            import subprocess

            fam, params = v["case"]["crash_block"]
            code = ("import sys, json; sys.argv=['x']; from vf import boot, core; core.scratch_dir(); import importlib; "
                    "mod = importlib.import_module('vf.props.%s'); boot.load(getattr(mod, 'VARIANT', 'plain')); "
                    "acc = core.Acc(mod.ID, [], stop_at_first=False); mod.run_block(%r, json.loads(%r), acc); print('block finished')" % (pid.lower(), fam, json.dumps(params)))
            p = subprocess.run([sys.executable, "-c", code], cwd=os.path.dirname(os.path.dirname(os.path.abspath(__file__))), capture_output=True, text=True)
            bad = p.returncode < 0
            print("child exit status %d%s" % (p.returncode, " (killed by signal %d)" % -p.returncode if bad else ""))
            print("replay: %s" % ("violation reproduced" if bad else "no violation"))
            return 1 if bad else 0
        bad = mod.replay(v["case"], v.get("site"))
        print("replay: %s" % ("violation reproduced" if bad else "no violation"))
        return 1 if bad else 0

    if hasattr(mod, "main"):
        return mod.main(tier, all_violations=a.all, t0=t0)

    blocks = mod.blocks(tier)
    tot, err = core.run_blocks(mod, blocks, all_violations=a.all, nproc=a.nproc)
    if err:
        print("INFRASTRUCTURE: %s" % err)
        return 2
    if a.all and tot["violations"]:
        groups = {}
        for v in tot["violations"]:
            groups.setdefault(v["site"], []).append(v)
        for s, vs in sorted(groups.items()):
            print("GROUP site=%s n=%d first=%s :: %s" % (s, len(vs), json.dumps(vs[0]["case"])[:500], vs[0]["detail"][:300]))
    extra = mod.post(tier, tot) if hasattr(mod, "post") else None
    if isinstance(extra, dict) and extra.get("__error__"):
        print("INFRASTRUCTURE: %s" % extra["__error__"])
        return 2
    return core.finish(mod, tier, tot, t0, extra_cov=extra)


if __name__ == "__main__":
    try:
        rc = main()
    except SystemExit:
        raise
    except BaseException:  # noqa - a crash of the machinery is not a verdict about the library: exit 2, never 1
        import traceback

        traceback.print_exc()
        print("INFRASTRUCTURE: the check itself crashed (see traceback on stderr)")
        rc = 2
    sys.exit(rc)
