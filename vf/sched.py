"""Engine `sched`: stateless, preemption-bounded exploration of all schedules of the pooled
fill tasks of the REAL cube code, under a baton scheduler.

* Worker tasks run on real threading.Threads, but exactly one holds the baton at any time.
* Scheduling points are sys.monitoring LINE (or INSTRUCTION) events on the code objects of the
  catii modules, delivered inside the worker threads, plus two free (non-preemptive) switch points of
  the model pool: "worker finished a chunk and asks for the next" and "worker ended".
* multiprocessing.pool.ThreadPool is replaced by ModelPool, a small model of what ThreadPool.map
  means in CPython 3.12 (bound to the real pool by conformance.py).
"""
import os
import sys
import threading

MON = sys.monitoring
TOOL_ID = 4


class Diverged(Exception):
    pass


class Scheduler:
    """One execution: replays `prefix` (list of choice indices), then takes choice 0."""

    def __init__(self, prefix=(), record_trace=False):
        self.prefix = list(prefix)
        self.choices = []          # chosen index at every point
        self.points = []           # (enabled tuple, running_still_enabled, kind)
        self.trace = [] if record_trace else None
        self.diverged = None
        self.deadlock = False
        self.tid2wid = {}
        self.active = False
        self.task_completion_order = []
        self.max_points = 200000
        self.pools = []            # model pools that left queued work behind (abandoned imap)

    # ---- choice -------------------------------------------------------------------------------
    def _choose(self, enabled, running_enabled, kind):
        i = len(self.choices)
        if i < len(self.prefix):
            c = self.prefix[i]
            if c >= len(enabled):
                self.diverged = "replay divergence at point %d: choice %d but only %d enabled (%s)" % (i, c, len(enabled), kind)
                c = 0
        else:
            c = 0
        self.choices.append(c)
        self.points.append((tuple(enabled), running_enabled, kind))
        return enabled[c]

    # ---- the model pool's map -----------------------------------------------------------------
    def run_map(self, func, chunks, nworkers):
        self.func = func
        self.queue = list(enumerate(chunks))
        self.results = {}
        self.completed = []        # (chunk index, success, value) in completion order
        self.nworkers = nworkers
        self.sems = {}
        self.threads = {}
        self.started = set()
        self.finished = set()
        self.main_sem = threading.Semaphore(0)
        self.errors = []
        if not chunks:
            return []
        self.active = True
        try:
            first = self._choose(self._enabled(None), False, "start")
            self._resume(first)
            self.main_sem.acquire()
        finally:
            self.active = False
        for t in self.threads.values():
            t.join()
        if self.errors:
            raise self.errors[0]
        if self.deadlock:
            raise RuntimeError("deadlock in model pool")
        failures = [(ci, v) for ci, ok, v in self.completed if not ok]
        if failures:
            raise failures[0][1]   # the first *recorded* failure (completion order), after ALL chunks finished
        # MapResult._set: a list of n placeholders, each finished chunk assigned to ITS slice in completion order (a chunk cut short by a
        # StopIteration is shorter than its slice, so the list shrinks and later slices shift - exactly what the stdlib does)
        cs = len(chunks[0])
        out = [None] * sum(len(c) for c in chunks)
        for ci, ok, _ in self.completed:
            if ok:
                out[ci * cs:(ci + 1) * cs] = self.results[ci]
        return out

    def _enabled(self, running):
        """Canonical order: the running thread first (if still enabled), then ascending worker ids.
        Unstarted workers are interchangeable: only the lowest-id one is offered, and only if a chunk is waiting."""
        en = []
        if running is not None and running not in self.finished:
            en.append(running)
        for w in sorted(self.started - self.finished):
            if w != running:
                en.append(w)
        if self.queue:
            unstarted = [w for w in range(self.nworkers) if w not in self.started]
            if unstarted:
                en.append(unstarted[0])
        return en

    def _resume(self, wid):
        if wid not in self.started:
            self.started.add(wid)
            self.sems[wid] = threading.Semaphore(0)
            t = threading.Thread(target=self._worker, args=(wid,), daemon=True)
            self.threads[wid] = t
            t.start()
        self.sems[wid].release()

    def _worker(self, wid):
        self.sems[wid].acquire()
        self.tid2wid[threading.get_ident()] = wid
        try:
            while self.queue:
                ci, chunk = self.queue.pop(0)
                try:
                    res = []
                    try:
                        for t in chunk:
                            res.append(self.func(t))
                            self.task_completion_order.append((ci, len(res) - 1))
                    except StopIteration:
                        # the stdlib runs a chunk as list(map(func, chunk)): a StopIteration escaping from func ends the map
                        # silently - the chunk "succeeds" with the results so far and the rest of it is skipped
                        pass
                    self.results[ci] = res
                    self.completed.append((ci, True, None))
                except Exception as e:  # the stdlib worker loop traps Exception only
                    self.completed.append((ci, False, e))
                # free switch point: "give me the next chunk" is a blocking queue operation
                self._free_point(wid, "take")
        except BaseException as e:  # noqa  (scheduler bug or BaseException from a task)
            self.errors.append(e)
        finally:
            self.tid2wid.pop(threading.get_ident(), None)
            self.finished.add(wid)
            en = self._enabled(None)
            if en:
                nxt = self._choose(en, False, "end")
                self._resume(nxt)
            elif self.queue:
                self.deadlock = True
                self.main_sem.release()
            else:
                self.main_sem.release()

    def _free_point(self, wid, kind):
        if not self.queue:
            return  # nothing left to take: the worker is about to end; no choice here
        en = self._enabled(wid)
        if len(en) > 1:
            nxt = self._choose(en, False, kind)
            if nxt != wid:
                self._resume(nxt)
                self.sems[wid].acquire()

    # ---- preemption points (monitoring callback) ------------------------------------------------
    def on_event(self, code, where):
        if not self.active:
            return
        wid = self.tid2wid.get(threading.get_ident())
        if wid is None:
            return
        if self.trace is not None:
            self.trace.append((wid, code.co_name, where))
        if len(self.points) > self.max_points:
            return
        en = self._enabled(wid)
        if len(en) > 1:
            nxt = self._choose(en, True, "pt")
            if nxt != wid:
                self._resume(nxt)
                self.sems[wid].acquire()

    def preemptions(self):
        return sum(1 for (en, run, kind), c in zip(self.points, self.choices) if run and c != 0)


CURRENT = None  # the Scheduler of the execution in progress (one per process)
_EXECS = 0


def yield_point():
    """Explicit preemption point for task bodies that contain no monitored code (used by the pool conformance check)."""
    s = CURRENT
    if s is not None:
        s.on_event(yield_point.__code__, 0)


class ModelPool:
    """What multiprocessing.pool.ThreadPool(processes).map means in CPython 3.12, for the baton scheduler (after close() or
    terminate() new work is refused with ValueError, as the real pool does):
    materialise the iterable in the caller; chunksize = ceil(n / (4*workers)); FIFO chunk queue; a chunk is
    list(map(f, chunk)) so an exception skips the rest of its chunk only; map returns only after ALL chunks have
    finished and raises the first recorded failure; close()/terminate()/join() have no semantic effect."""

    def __init__(self, processes=None, *args, **kwargs):
        self.processes = processes or (os.cpu_count() or 1)
        if self.processes < 1:
            raise ValueError("Number of processes must be at least 1")
        self._running = True

    def _check_running(self):
        # the real pool refuses new work once close() or terminate() has been called
        if not self._running:
            raise ValueError("Pool not running")

    @staticmethod
    def chunks_for(n, workers, chunksize=None):
        if chunksize is None:
            chunksize, extra = divmod(n, workers * 4)
            if extra:
                chunksize += 1
        if n == 0:
            chunksize = 0
        return chunksize

    def map(self, func, iterable, chunksize=None):
        self._check_running()
        tasks = list(iterable)
        cs = self.chunks_for(len(tasks), self.processes, chunksize)
        chunks = [tasks[i:i + cs] for i in range(0, len(tasks), cs)] if cs else []
        sch = CURRENT
        if sch is None:
            raise RuntimeError("ModelPool used outside an exploration")
        return sch.run_map(func, chunks, self.processes)

    # --- the rest of the ThreadPool surface a refactoring might legitimately use ----------------------
    # Asynchronous variants are modelled as deferred: the tasks run (under the scheduler) when the caller
    # waits for them, which is one legal behaviour of the real pool (the caller does nothing in between).
    def map_async(self, func, iterable, chunksize=None, callback=None, error_callback=None):
        return ModelAsyncResult(lambda: self.map(func, iterable, chunksize), callback, error_callback)

    def starmap(self, func, iterable, chunksize=None):
        return self.map(lambda args: func(*args), iterable, chunksize)

    def starmap_async(self, func, iterable, chunksize=None, callback=None, error_callback=None):
        return ModelAsyncResult(lambda: self.starmap(func, iterable, chunksize), callback, error_callback)

    def imap(self, func, iterable, chunksize=1):
        return self._lazy_imap(func, iterable, chunksize)

    def imap_unordered(self, func, iterable, chunksize=1):
        return self._lazy_imap(func, iterable, chunksize)

    def _lazy_imap(self, func, iterable, chunksize):
        """imap / imap_unordered: results surface while later tasks are still queued.  Modelled in waves of `processes` chunks (each wave
        explored by the scheduler like a map); when a wave fails, its exception is raised to the consumer at once and the chunks not yet
        started STAY QUEUED on the pool (`background`): the real pool's workers would go on executing them unless terminate() is called,
        and join() waits for them."""
        self._check_running()
        tasks = list(iterable)
        cs = max(1, chunksize or 1)
        chunks = [tasks[i:i + cs] for i in range(0, len(tasks), cs)]
        sch = CURRENT
        if sch is None:
            raise RuntimeError("ModelPool used outside an exploration")
        if self not in sch.pools:
            sch.pools.append(self)

        def gen():
            pos = 0
            while pos < len(chunks):
                wave = chunks[pos:pos + self.processes]
                pos += len(wave)
                try:
                    out = sch.run_map(func, wave, self.processes)
                except Exception:
                    self._background = (func, chunks[pos:])
                    raise
                for v in out:
                    yield v

        return gen()

    def apply(self, func, args=(), kwds=None):
        return self.map(lambda _: func(*args, **(kwds or {})), [0])[0]

    def apply_async(self, func, args=(), kwds=None, callback=None, error_callback=None):
        return ModelAsyncResult(lambda: self.apply(func, args, kwds), callback, error_callback)

    _background = None

    def close(self):
        self._running = False

    def terminate(self):
        self._running = False
        self._background = None      # queued tasks are discarded

    def join(self):
        # waits for every queued task
        if self._background is not None:
            func, chunks = self._background
            self._background = None
            if chunks and CURRENT is not None:
                try:
                    CURRENT.run_map(func, chunks, self.processes)
                except Exception:  # noqa
                    pass

    def __enter__(self):
        return self

    def __exit__(self, *a):
        self.terminate()


def background_pending():
    """Number of sub-tasks still queued on pools of the current execution (left behind by an abandoned imap)."""
    sch = CURRENT
    if sch is None:
        return 0
    n = 0
    for p in getattr(sch, "pools", ()):
        if p._background is not None:
            n += sum(len(c) for c in p._background[1])
    return n


def _capture(func, t):
    try:
        return (True, func(t))
    except Exception as e:  # noqa
        return (False, e)


class ModelAsyncResult:
    """multiprocessing.pool.AsyncResult for the model pool (deferred execution)."""

    def __init__(self, thunk, callback=None, error_callback=None):
        self._thunk = thunk
        self._done = False
        self._ok = None
        self._value = None
        self._cb, self._ecb = callback, error_callback

    def _run(self):
        if not self._done:
            try:
                self._value = self._thunk()
                self._ok = True
                if self._cb:
                    self._cb(self._value)
            except Exception as e:  # noqa
                self._value = e
                self._ok = False
                if self._ecb:
                    self._ecb(e)
            self._done = True

    def wait(self, timeout=None):
        self._run()

    def ready(self):
        self._run()
        return True

    def successful(self):
        self._run()
        return self._ok

    def get(self, timeout=None):
        self._run()
        if self._ok:
            return self._value
        raise self._value


# ----------------------------------------------------------------------------- monitoring set-up

_installed = {"gran": None, "codes": []}


def catii_code_objects():
    import types

    import catii.ccubes, catii.ffuncs, catii.iindexes, catii.xcubes, catii.xfuncs  # noqa

    seen = {}

    def walk(code):
        if id(code) in seen:
            return
        seen[id(code)] = code
        for c in code.co_consts:
            if isinstance(c, types.CodeType):
                walk(c)

    for mod in (catii.ccubes, catii.ffuncs, catii.iindexes, catii.xcubes, catii.xfuncs):
        for obj in vars(mod).values():
            if isinstance(obj, types.FunctionType) and obj.__module__ == mod.__name__:
                walk(obj.__code__)
            elif isinstance(obj, type) and obj.__module__ == mod.__name__:
                for a in vars(obj).values():
                    f = a.__func__ if isinstance(a, (staticmethod, classmethod)) else a
                    if isinstance(f, types.FunctionType):
                        walk(f.__code__)
                    elif isinstance(f, property) and f.fget is not None:
                        walk(f.fget.__code__)
    return list(seen.values())


def _cb_line(code, line):
    s = CURRENT
    if s is not None:
        s.on_event(code, line)


def _cb_instr(code, offset):
    s = CURRENT
    if s is not None:
        s.on_event(code, offset)


def install(granularity):
    """granularity: 'line' | 'instruction'"""
    if _installed["gran"] == granularity:
        return
    uninstall()
    try:
        MON.use_tool_id(TOOL_ID, "vf-sched")
    except ValueError:
        pass
    ev = MON.events.LINE if granularity == "line" else MON.events.INSTRUCTION
    MON.register_callback(TOOL_ID, ev, _cb_line if granularity == "line" else _cb_instr)
    codes = catii_code_objects()
    for c in codes:
        MON.set_local_events(TOOL_ID, c, ev)
    _installed["gran"] = granularity
    _installed["codes"] = codes


def uninstall():
    if _installed["gran"] is None:
        return
    for c in _installed["codes"]:
        try:
            MON.set_local_events(TOOL_ID, c, 0)
        except Exception:
            pass
    MON.register_callback(TOOL_ID, MON.events.LINE, None)
    MON.register_callback(TOOL_ID, MON.events.INSTRUCTION, None)
    try:
        MON.free_tool_id(TOOL_ID)
    except Exception:
        pass
    _installed["gran"] = None
    _installed["codes"] = []


def patch_pools():
    """Make both cube types use the model pool (public seams)."""
    import multiprocessing.pool

    import catii.xcubes

    multiprocessing.pool.ThreadPool = ModelPool
    catii.xcubes.xcube.pool_class = ModelPool
    _rebind(ModelPool)


def _rebind(pool):
    """Also cover `from multiprocessing.pool import ThreadPool`-style bindings inside the cube modules."""
    import catii.ccubes
    import catii.xcubes

    from . import conformance

    for mod in (catii.ccubes, catii.xcubes):
        for name, val in list(vars(mod).items()):
            if val is conformance.REAL_POOL or val is ModelPool:
                setattr(mod, name, pool)


# ----------------------------------------------------------------------------- one execution / exploration

def execute(body, prefix=(), record_trace=False):
    """Run body() under a fresh Scheduler. Returns (scheduler, result or exception)."""
    global CURRENT, _EXECS
    import gc

    s = Scheduler(prefix, record_trace)
    # finalizers (__del__) of objects from EARLIER executions may run monitored library code; if the cyclic collector fired
    # in the middle of an execution they would add scheduling points at GC-determined places. Own that nondeterminism:
    # no collection during an execution, a full one every few executions while no scheduler is listening.
    gc.disable()
    CURRENT = s
    try:
        try:
            out = ("ok", body())
        except Exception as e:  # noqa
            out = ("exc", e)
    finally:
        CURRENT = None
        _EXECS += 1
        if _EXECS % 64 == 0:
            gc.collect()
        gc.enable()
    return s, out


def alternatives(s, start, bound):
    """Yield prefixes branching off execution `s` at points >= start within the preemption bound."""
    pre = 0
    costs = []
    for (en, run, kind), c in zip(s.points, s.choices):
        costs.append(pre)
        if run and c != 0:
            pre += 1
    for i in range(start, len(s.points)):
        en, run, kind = s.points[i]
        cost = costs[i] + (1 if run else 0)
        if cost > bound:
            continue
        for alt in range(1, len(en)):
            if alt == s.choices[i]:
                continue
            yield s.choices[:i] + [alt]


def explore(body, check, bound, prefix=(), stats=None, limit=None):
    """DFS over all schedules extending `prefix` within the bound. check(s, out) -> violation or None.
    Returns first violation (dict) or None. stats: dict updated in place."""
    stack = [list(prefix)]
    while stack:
        pre = stack.pop()
        s, out = execute(body, pre)
        stats["executions"] = stats.get("executions", 0) + 1
        stats["points"] = stats.get("points", 0) + len(s.points)
        stats["max_points"] = max(stats.get("max_points", 0), len(s.points))
        stats.setdefault("orders", set()).add(tuple(s.task_completion_order))
        if s.diverged:
            return {"kind": "diverged", "detail": s.diverged, "choices": s.choices}
        v = check(s, out)
        if v is not None:
            v["choices"] = list(s.choices)
            v["preemptions"] = s.preemptions()
            return v
        if limit is not None and stats["executions"] >= limit:
            stats["capped"] = True
            return None
        for alt in alternatives(s, len(pre), bound):
            stack.append(alt)
    return None
