"""Runner: shard blocks over processes, merge deterministically, write evidence / replays."""
import hashlib
import json
import multiprocessing
import os
import sys
import time
import traceback

VERIF = os.path.dirname(os.path.dirname(os.path.abspath(__file__)))
EVIDENCE_DIR = os.environ.get("VF_EVIDENCE_DIR") or os.path.join(VERIF, "evidence")
REPLAY_DIR = (os.path.join(os.environ["VF_EVIDENCE_DIR"], "replays") if os.environ.get("VF_EVIDENCE_DIR") else os.path.join(VERIF, "replays"))
KNOWN_FILE = os.path.join(VERIF, "known_findings.json")
NPROC = int(os.environ.get("VERIF_NPROC", "16"))


_SCRATCH = None


def scratch_dir():
    """Private tmpfs directory for this run; created by the first caller (normally the parent before
    forking, via vf.cli) and removed by that process at exit. Nothing is kept under /tmp."""
    global _SCRATCH
    d = os.environ.get("VF_SCRATCH")
    if d and os.path.isdir(d):
        return d
    import atexit
    import shutil
    import tempfile

    base = "/dev/shm" if os.path.isdir("/dev/shm") and os.access("/dev/shm", os.W_OK) else None
    d = tempfile.mkdtemp(prefix="vf-%d-" % os.getpid(), dir=base)
    os.environ["VF_SCRATCH"] = d
    pid = os.getpid()

    def _rm():
        if os.getpid() == pid:
            shutil.rmtree(d, ignore_errors=True)

    atexit.register(_rm)
    return d


def seed():
    try:
        return int(os.environ.get("VERIF_SEED", "0"))
    except ValueError:
        return 0


def jsonable(x):
    import numpy

    if isinstance(x, dict):
        return {str(k): jsonable(v) for k, v in x.items()}
    if isinstance(x, (list, tuple, set, frozenset)):
        return [jsonable(v) for v in x]
    if isinstance(x, numpy.ndarray):
        if x.dtype.kind == "M":
            return {"__nd__": x.astype(str).tolist(), "dtype": str(x.dtype)}
        return {"__nd__": jsonable(x.tolist()), "dtype": str(x.dtype)}
    if isinstance(x, numpy.generic):
        return jsonable(x.item())
    if isinstance(x, bytes):
        return {"__hex__": x.hex()}
    if isinstance(x, float):
        if x != x:
            return "NaN"
        if x in (float("inf"), float("-inf")):
            return "inf" if x > 0 else "-inf"
        return x
    if isinstance(x, (int, str, bool)) or x is None:
        return x
    return repr(x)


def load_known():
    if not os.path.exists(KNOWN_FILE):
        return []
    with open(KNOWN_FILE) as f:
        data = json.load(f)
    return data.get("findings", [])


class StopBlock(Exception):
    pass


class Acc:
    """Per-block accumulator."""

    def __init__(self, prop, known, stop_at_first=True, max_samples=2):
        self.prop = prop
        self.known = [k for k in known if k.get("property") == prop and k.get("status") == "known"]
        self.evaluations = 0
        self._keys = set()
        self._dup = 0
        self.outcomes = set()
        self.violations = []
        self.known_hits = {}
        self.counters = {}
        self._samples = []  # (rank, jsonable)
        self.max_samples = max_samples
        self.stop_at_first = stop_at_first
        self._seed = seed()

    def case(self, key, nontrivial=True, outcome=None, sample=None):
        """Record one explored case. key: hashable canonical description."""
        self.evaluations += 1
        h = hash(key)
        if nontrivial:
            if h in self._keys:
                self._dup += 1
            else:
                self._keys.add(h)
        if outcome is not None:
            if len(self.outcomes) < 4096:
                self.outcomes.add(outcome)
        rank = (h * 0x9E3779B97F4A7C15 + self._seed * 0xC2B2AE3D27D4EB4F) & 0xFFFFFFFFFFFF
        if len(self._samples) < self.max_samples or rank < self._samples[-1][0]:
            s = sample if sample is not None else key
            if callable(s):
                s = s()
            self._samples.append((rank, jsonable(s)))
            self._samples.sort(key=lambda t: t[0])
            del self._samples[self.max_samples:]

    def count(self, name, n=1):
        self.counters[name] = self.counters.get(name, 0) + n

    def peak(self, name, v):
        k = "max:" + name
        if v > self.counters.get(k, -1):
            self.counters[k] = v

    def violation(self, site, case, detail=""):
        case = jsonable(case)
        for k in self.known:
            if k.get("site") == site and all(case.get(a) == b for a, b in k.get("match", {}).items()):
                self.known_hits[k["id"]] = self.known_hits.get(k["id"], 0) + 1
                return False
        self.violations.append({"property": self.prop, "site": site, "case": case, "detail": str(detail)[:2000]})
        if self.stop_at_first:
            raise StopBlock()
        return True

    def result(self):
        return {
            "evaluations": self.evaluations,
            "nontrivial": len(self._keys),
            "outcomes": self.outcomes,
            "violations": self.violations,
            "known_hits": self.known_hits,
            "counters": self.counters,
            "samples": self._samples,
        }


_MOD = None
_KNOWN = None
_ALL = False


def _marker(pid):
    return os.path.join(scratch_dir(), "running-%d" % pid)


def _worker_run(args):
    idx, family, params = args
    acc = Acc(_MOD.ID, _KNOWN, stop_at_first=not _ALL)
    # leave a note saying which block this process is executing: if the library kills the interpreter (a segmentation fault in a kernel), the
    # parent finds the note of a process that no longer exists - a multiprocessing.Pool would otherwise wait for the lost result for ever
    mk = _marker(os.getpid())
    try:
        with open(mk, "w") as f:
            f.write(str(idx))
    except OSError:
        mk = None
    try:
        _MOD.run_block(family, params, acc)
    except StopBlock:
        pass
    except Exception:
        return idx, {"error": "block %s %r crashed:\n%s" % (family, params, traceback.format_exc())}
    finally:
        if mk:
            try:
                os.remove(mk)
            except OSError:
                pass
    return idx, acc.result()


def _dead_workers():
    """Block indices whose worker process no longer exists."""
    out = []
    try:
        names = os.listdir(scratch_dir())
    except OSError:
        return out
    for n in names:
        if not n.startswith("running-"):
            continue
        pid = int(n.split("-")[1])
        try:
            os.kill(pid, 0)
            alive = open("/proc/%d/stat" % pid).read().split(")")[-1].split()[0] != "Z"
        except (OSError, IndexError):
            alive = False
        if not alive:
            try:
                out.append(int(open(os.path.join(scratch_dir(), n)).read().strip()))
                os.remove(os.path.join(scratch_dir(), n))
            except (OSError, ValueError):
                pass
    return out


def merge(results):
    tot = {"evaluations": 0, "nontrivial": 0, "outcomes": set(), "violations": [], "known_hits": {}, "counters": {}, "samples": []}
    for r in results:
        tot["evaluations"] += r["evaluations"]
        tot["nontrivial"] += r["nontrivial"]
        tot["outcomes"] |= r["outcomes"]
        tot["violations"].extend(r["violations"])
        for k, v in r["known_hits"].items():
            tot["known_hits"][k] = tot["known_hits"].get(k, 0) + v
        for k, v in r["counters"].items():
            if k.startswith("max:"):
                tot["counters"][k] = max(tot["counters"].get(k, -1), v)
            else:
                tot["counters"][k] = tot["counters"].get(k, 0) + v
        tot["samples"].extend(r["samples"])
    tot["samples"].sort(key=lambda t: t[0])
    return tot


def run_blocks(mod, blocks, all_violations=False, nproc=None):
    """Run blocks over a fork pool. Returns (merged, infrastructure_error or None)."""
    global _MOD, _KNOWN, _ALL
    _MOD, _KNOWN, _ALL = mod, load_known(), all_violations
    nproc = nproc or NPROC
    tasks = [(i, fam, params) for i, (fam, params) in enumerate(blocks)]
    results = [None] * len(tasks)
    err = None
    if nproc <= 1 or len(tasks) <= 1:
        for t in tasks:
            i, r = _worker_run(t)
            if "error" in r:
                return None, r["error"]
            results[i] = r
            if r["violations"] and not all_violations:
                break
    else:
        ctx = multiprocessing.get_context("fork")
        pool = ctx.Pool(min(nproc, len(tasks)))
        try:
            pending = {}
            nxt = 0
            stop = False
            it = pool.imap_unordered(_worker_run, tasks, chunksize=1)
            ndone = 0
            while ndone < len(tasks):
                try:
                    i, r = it.next(timeout=5)
                except multiprocessing.TimeoutError:
                    dead = _dead_workers()
                    if not dead:
                        continue
                    # the interpreter of a worker was killed while it executed this block: the library crashed it
                    i = min(dead)
                    fam, params = blocks[i]
                    r = {"evaluations": 0, "nontrivial": 0, "outcomes": set(), "known_hits": {}, "counters": {}, "samples": [],
                         "violations": [{"property": mod.ID, "site": "crash:%s" % fam, "case": {"crash_block": [fam, jsonable(params)]},
                                         "detail": "the worker process executing block %s %r was killed (a fatal signal such as a segmentation fault inside the library): no Python exception, the interpreter died" % (fam, params)}]}
                    # nothing after a crash is trusted: report it as the first violation
                    results = [None] * len(tasks)
                    results[0] = r
                    break
                except StopIteration:
                    break
                ndone += 1
                if "error" in r:
                    err = r["error"]
                    break
                pending[i] = r
                # consume in order so that the first violation is deterministic
                while nxt in pending:
                    results[nxt] = pending.pop(nxt)
                    if results[nxt]["violations"] and not all_violations:
                        stop = True
                        break
                    nxt += 1
                if stop:
                    break
        finally:
            pool.terminate()
            pool.join()
        if err:
            return None, err
    done = [r for r in results if r is not None]
    # keep only the in-order prefix up to and including the first violating block
    prefix = []
    for r in results:
        if r is None:
            break
        prefix.append(r)
        if r["violations"] and not all_violations:
            break
    return merge(prefix if not all_violations else done), None


def write_replay(prop, viol):
    d = os.path.join(REPLAY_DIR, prop)
    os.makedirs(d, exist_ok=True)
    blob = json.dumps(viol, sort_keys=True, indent=1)
    h = hashlib.sha256(blob.encode()).hexdigest()[:12]
    path = os.path.join(d, h + ".json")
    with open(path, "w") as f:
        f.write(blob)
    return path


def write_evidence(prop, tier, level, coverage, assumptions, wall_s, violations):
    os.makedirs(EVIDENCE_DIR, exist_ok=True)
    ev = {
        "property_id": prop,
        "tier": tier,
        "seed": seed(),
        "level": level,
        "coverage": jsonable(coverage),
        "assumptions": list(assumptions),
        "wall_s": round(wall_s, 3),
        "violations": violations,
    }
    path = os.path.join(EVIDENCE_DIR, prop + ".json")
    tmp = path + ".tmp%d" % os.getpid()
    with open(tmp, "w") as f:
        json.dump(ev, f, indent=1, sort_keys=True)
        f.write("\n")
    os.replace(tmp, path)
    return path


def finish(mod, tier, tot, t0, extra_cov=None, desc=None):
    """Common tail: print known findings/violations, write evidence, return exit code."""
    desc = desc or mod.describe(tier)
    known = [k for k in load_known() if k.get("property") == mod.ID and k.get("status") == "known"]
    for k in known:
        print("KNOWN-FINDING: property=%s %s (site=%s, hits this run=%d)" % (mod.ID, k.get("what", ""), k.get("site"), tot["known_hits"].get(k["id"], 0)))
    cov = {
        "evaluations": tot["evaluations"],
        "distinct_nontrivial": tot["nontrivial"],
        "rule": desc["rule"],
        "samples": [s for _, s in tot["samples"][:5]],
        "exhaustive": desc.get("exhaustive", True),
        "bounds": desc.get("bounds", {}),
        "distinct_outcomes": len(tot["outcomes"]),
        "counters": tot["counters"],
        "known_finding_hits": tot["known_hits"],
    }
    if extra_cov:
        cov.update(extra_cov)
    code = 0
    nviol = len(tot["violations"])
    if nviol:
        v = tot["violations"][0]
        path = write_replay(mod.ID, v)
        print("site=%s detail=%s" % (v["site"], v["detail"][:600]))
        print("case=%s" % json.dumps(v["case"])[:1200])
        print("VIOLATION property=%s replay=%s" % (mod.ID, path))
        code = 1
    wall = time.time() - t0
    write_evidence(mod.ID, tier, mod.LEVEL, cov, desc.get("assumptions", []), wall, nviol)
    print(
        "%s tier=%s evaluations=%d distinct_nontrivial=%d outcomes=%d violations=%d known_hits=%d wall=%.1fs %s"
        % (mod.ID, tier, tot["evaluations"], tot["nontrivial"], len(tot["outcomes"]), nviol, sum(tot["known_hits"].values()), wall,
           " ".join("%s=%s" % kv for kv in sorted(tot["counters"].items())))
    )
    return code
