"""Small cube harnesses for the schedule/cancellation/purity engines: cubes with more than two sub-cubes
(the condition under which pooling can engage) and nothing bigger.  Every call builds fresh objects from constants."""
import numpy

from . import models as M

NaN = float("nan")


def _dense(shape, seed):
    n = 1
    for s in shape:
        n *= s
    if n > 5000:
        i = numpy.arange(n, dtype=numpy.int64)
        return (((i * 5 + seed + i // 7) % 3) % 2).reshape(shape)
    vals = [((i * 7 + seed * 3 + (i // 2)) % 3) % 2 if seed % 2 else ((i * 5 + seed) % 3) for i in range(n)]
    return numpy.array(vals, dtype=numpy.int64).reshape(shape) % 2


def _tile(base, N):
    base = numpy.array(base)
    if N <= len(base):
        return base[:N].copy()
    reps = -(-N // len(base))
    return numpy.concatenate([base] * reps)[:N].copy()


FACT1 = lambda N: _tile([1.0, 2.0, 4.0, 7.0, 11.0], N)  # noqa
FACT2 = lambda N: _tile([[1.0, 7.0], [2.0, 1.0], [4.0, 11.0], [7.0, 2.0], [11.0, 4.0]], N)  # noqa


def fact1_missing(N):
    a = FACT1(N).copy()
    if N > 1:
        a[1] = NaN
    return a


def fact2_pair(N):
    v = FACT2(N).copy()
    ok = numpy.ones(v.shape, dtype=bool)
    if N > 0:
        ok[0, 1] = False
        v[0, 1] = 1e300
    return (v, ok)


def fact1_pair(N):
    """(values, validity) hiding a REAL number under False validity."""
    v = FACT1(N).copy()
    ok = numpy.ones(N, dtype=bool)
    if N > 1:
        ok[1] = False
        v[1] = 1000.0
    return (v, ok)


def weights_pair(N):
    w = weights(N).copy()
    ok = numpy.ones(N, dtype=bool)
    if N > 2:
        ok[2] = False
        w[2] = 1e6
    return (w, ok)


def weights(N):
    return _tile([0.5, 1.0, 2.0, 4.0, 8.0], N)


def weights_missing(N):
    w = weights(N).copy()
    if N > 2:
        w[2] = NaN
    return w


# name -> (kind, N, [dim shapes (extra extents)], commons, funcs spec)
HARNESSES = {
    # index cubes
    "c3x1": ("ccube", 3, [[3], []], [0, 1], ["count", "sum_w"]),
    "c22": ("ccube", 2, [[2, 2]], [1], ["mean2", "valid_count"]),
    "c2x2": ("ccube", 2, [[2], [2]], [0, 2], ["count_w"]),
    "c3": ("ccube", 3, [[3]], [0], ["sum", "mean_wm"]),
    # array cubes
    "x3x1": ("xcube", 3, [[3], []], None, ["count", "sum_w"]),
    "x22": ("xcube", 4, [[2, 2]], None, ["stddev", "quantile", "max"]),
    "x2x2": ("xcube", 3, [[2], [2]], None, ["mean2_w", "corrcoef", "covariance"]),
    "x3": ("xcube", 3, [[3]], None, ["valid_count", "min", "quantile_w"]),
    # (values, validity) facts hiding real numbers and (values, validity) weights: lazily applied masks matter
    "c3p": ("ccube", 3, [[3]], [1], ["sum_p", "mean_p", "valid_count_p"]),
    "x3p": ("xcube", 3, [[3]], None, ["quantile_p", "stddev_p", "mean_p"]),
    "x2x2p": ("xcube", 3, [[2], [2]], None, ["sum_p", "max_p", "covariance_p"]),
    # a column that holds only the common value (an entirely empty 1-D slice)
    "c3z": ("ccube", 3, [[3]], [0], ["count", "sum"], "zero-column"),
    "c2x2z": ("ccube", 2, [[2], [2]], [0, 0], ["count"], "zero-column"),
    # serial-only shapes for the cancellation property (1, 2, 6 sub-cubes)
    "c1": ("ccube", 3, [[], []], [0, 1], ["count", "sum"]),
    "c2": ("ccube", 3, [[2]], [2], ["mean2"]),
    "c6": ("ccube", 2, [[2, 3]], [0], ["count"]),
    # 8 sub-cubes: with one worker the pool's chunks hold two tasks each (chunk size = ceil(n / (4 * workers)))
    "c8": ("ccube", 2, [[2, 2], [2]], [0, 1], ["count", "sum"]),
    "x8": ("xcube", 2, [[2, 2], [2]], None, ["count", "sum"]),
    "x1": ("xcube", 3, [[]], None, ["sum", "stddev"]),
    # aggregate-function objects built with the documented option tracing=False
    "c3nt": ("ccube", 3, [[3]], [0], ["count_nt", "sum_nt", "mean_nt"]),
    # scale: 70 000 rows (beyond 2^16) with several aggregates in one pass; 1 296 sub-cubes (beyond 2^10)
    "x3big": ("xcube", 70000, [[3]], None, ["count", "sum_w", "mean2_w"]),
    "c3big": ("ccube", 70000, [[3]], [1], ["count", "sum_w", "mean2"]),
    "x1300": ("xcube", 3, [[36], [36]], None, ["count"]),
    "c1300": ("ccube", 3, [[36], [36]], [0, 1], ["count"]),
    "x6": ("xcube", 2, [[3], [2]], None, ["count", "mean2_w"]),
    "x3huge": ("xcube", 6, [[3]], None, ["stddev_huge", "sum_huge"]),
    "x2huge": ("xcube", 4, [[2]], None, ["stddev_huge"]),
}


def make_funcs(kind, N, names):
    if kind == "ccube":
        from catii import ffuncs as F

        table = {
            "count": lambda: F.ffunc_count(),
            "count_w": lambda: F.ffunc_count(weights_missing(N), ignore_missing=True),
            "valid_count": lambda: F.ffunc_valid_count(fact1_missing(N)),
            "sum": lambda: F.ffunc_sum(fact1_missing(N), ignore_missing=True),
            "sum_w": lambda: F.ffunc_sum(FACT1(N), weights(N)),
            "mean2": lambda: F.ffunc_mean(fact2_pair(N), None, True, (0, False)),
            "mean_wm": lambda: F.ffunc_mean(FACT1(N), weights_missing(N)),
            "sum_p": lambda: F.ffunc_sum(fact1_pair(N), weights_pair(N), True),
            "mean_p": lambda: F.ffunc_mean(fact2_pair(N), weights_pair(N), True),
            "valid_count_p": lambda: F.ffunc_valid_count(fact1_pair(N), None, False, (0, False)),
            "count_nt": lambda: F.ffunc_count(weights(N), tracing=False),
            "sum_nt": lambda: F.ffunc_sum(fact1_missing(N), ignore_missing=True, tracing=False),
            "mean_nt": lambda: F.ffunc_mean(FACT2(N), weights_missing(N), True, (0, False), tracing=False),
        }
    else:
        from catii import xfuncs as F

        table = {
            "count": lambda: F.xfunc_count(),
            "valid_count": lambda: F.xfunc_valid_count(fact1_missing(N)),
            "sum": lambda: F.xfunc_sum(fact1_missing(N), ignore_missing=True),
            "sum_w": lambda: F.xfunc_sum(FACT1(N), weights(N)),
            "mean2_w": lambda: F.xfunc_mean(fact2_pair(N), weights(N), True, (0, False)),
            "stddev": lambda: F.xfunc_stddev(FACT2(N), weights(N)),
            "quantile": lambda: F.xfunc_quantile(fact1_missing(N), 0.5, None, True),
            "quantile_w": lambda: F.xfunc_quantile(FACT1(N), 0.25, weights(N)),
            "max": lambda: F.xfunc_max(fact1_missing(N), True, (0, False)),
            "min": lambda: F.xfunc_min(FACT1(N)),
            "corrcoef": lambda: F.xfunc_corrcoef(FACT2(N)),
            "covariance": lambda: F.xfunc_covariance(FACT2(N), weights(N)),
            "quantile_p": lambda: F.xfunc_quantile(fact1_pair(N), 0.5, None, True),
            "stddev_p": lambda: F.xfunc_stddev(fact2_pair(N), weights_pair(N), True),
            "mean_p": lambda: F.xfunc_mean(fact1_pair(N), weights_pair(N), True, (0, False)),
            "sum_p": lambda: F.xfunc_sum(fact2_pair(N), weights_pair(N), True),
            "max_p": lambda: F.xfunc_max(fact1_pair(N), True, (0, False)),
            "covariance_p": lambda: F.xfunc_covariance(fact2_pair(N), weights_pair(N), True),
            # magnitudes whose squares overflow: whatever the kernels do about floating-point warnings / error state (process-global
            # settings) must not make one worker's answer depend on what another worker is doing
            "stddev_huge": lambda: F.xfunc_stddev(FACT2(N) * 1e160),
            "sum_huge": lambda: F.xfunc_sum(FACT1(N) * 1e307),
        }
    return [table[n]() for n in names]


def make(name, parallel=None, poolsize=None):
    """-> (cube, funcs). parallel: None leaves the constructor's choice."""
    kind, N, extras, commons, fnames = HARNESSES[name][:5]
    denses = [_dense((N,) + tuple(ex), i + 1) for i, ex in enumerate(extras)]
    if len(HARNESSES[name]) > 5 and HARNESSES[name][5] == "zero-column":
        denses[0] = denses[0].copy()
        denses[0][:, 1] = commons[0]
    shape = (3,) * len(denses)
    if kind == "ccube":
        from catii.ccubes import ccube

        dims = [M.build_index(d, c) for d, c in zip(denses, commons)]
        cube = ccube(dims, interacting_shape=shape)
    else:
        from catii.xcubes import xcube

        cube = xcube(denses, interacting_shape=shape)
    if parallel is not None:
        cube.parallel = parallel
    if poolsize is not None:
        cube.poolsize = poolsize
    return cube, make_funcs(kind, N, fnames)


def subcubes(name):
    kind, N, extras, commons, fnames = HARNESSES[name][:5]
    n = 1
    for ex in extras:
        for e in ex:
            n *= e
    return n


def freeze(output):
    """Bit-for-bit fingerprint of calculate()'s output (list of arrays or (values, validity) tuples)."""
    out = []
    for r in output:
        parts = r if isinstance(r, tuple) else (r,)
        fr = []
        for a in parts:
            a = numpy.asarray(a)
            fr.append((a.dtype.str, a.shape, a.tobytes()))
        out.append((isinstance(r, tuple), tuple(fr)))
    return tuple(out)


def thaw_repr(frozen):
    out = []
    for is_t, parts in frozen:
        out.append([numpy.frombuffer(b, dtype=numpy.dtype(d)).reshape(s).tolist() for d, s, b in parts])
    return out
