"""INDX: independent codec written from the IndxIO class docstring only, and the input families
shared by C10 (round trip), C11 (bytes) and C12 (torn files)."""
import itertools
import os
import struct

import numpy

MAGIC = b"INDX0001"
WORD_FMT = {1: "<B", 2: "<H", 4: "<L", 8: "<Q"}

ALPHA = [0, 255, 256, 65535, 65536, 2 ** 32 - 1, 2 ** 32, 2 ** 63 - 1]
ROWIDS5 = [[], [0], [0, 1, 5], [2 ** 32 - 1], [0, 2 ** 32 - 1]]
ROWIDS3 = [[], [0, 1, 5], [0, 2 ** 32 - 1]]


def narrowest(v):
    for w in (1, 2, 4, 8):
        if v < 1 << (8 * w):
            return w
    raise ValueError(v)


def encode(keys, arrays, common, index_word=None, rowid_word=4, dims=None):
    """Independent encoder. keys: list of coordinate tuples (file order); arrays: list of lists."""
    arity = len(keys[0]) if keys else 0
    if dims is None:
        dims = arity
    mx = max([common] + [c for k in keys for c in k])
    if index_word is None:
        index_word = narrowest(mx)
    payload = bytearray()
    payload += struct.pack("<B", dims)
    payload += struct.pack("<L", len(keys))
    payload += struct.pack("<B", index_word)
    payload += struct.pack(WORD_FMT[index_word], common)
    for k in keys:
        for c in k:
            payload += struct.pack(WORD_FMT[index_word], c)
    payload += struct.pack("<B", rowid_word)
    for a in arrays:
        payload += struct.pack(WORD_FMT[rowid_word], len(a))
    for a in arrays:
        if len(a) > 64:
            payload += numpy.asarray(a, dtype="<u%d" % rowid_word).tobytes()
        else:
            for r in a:
                payload += struct.pack(WORD_FMT[rowid_word], r)
    return MAGIC + struct.pack("<Q", len(payload)) + bytes(payload)


def decode(blob):
    """Independent decoder. Returns (keys, arrays, common, index_word, rowid_word, size_field)."""
    if blob[:8] != MAGIC:
        raise ValueError("bad magic")
    (size,) = struct.unpack_from("<Q", blob, 8)
    if len(blob) != 16 + size:
        raise ValueError("size field %d but payload is %d bytes" % (size, len(blob) - 16))
    off = 16
    (dims,) = struct.unpack_from("<B", blob, off); off += 1
    (n,) = struct.unpack_from("<L", blob, off); off += 4
    (iw,) = struct.unpack_from("<B", blob, off); off += 1
    if iw not in WORD_FMT:
        raise ValueError("index word size %d" % iw)
    (common,) = struct.unpack_from(WORD_FMT[iw], blob, off); off += iw
    keys = []
    for _ in range(n):
        k = []
        for _ in range(dims):
            (c,) = struct.unpack_from(WORD_FMT[iw], blob, off); off += iw
            k.append(c)
        keys.append(tuple(k))
    (rw,) = struct.unpack_from("<B", blob, off); off += 1
    if rw not in WORD_FMT:
        raise ValueError("rowid word size %d" % rw)
    lens = []
    for _ in range(n):
        (l,) = struct.unpack_from(WORD_FMT[rw], blob, off); off += rw
        lens.append(l)
    arrays = []
    for l in lens:
        a = []
        for _ in range(l):
            (r,) = struct.unpack_from(WORD_FMT[rw], blob, off); off += rw
            a.append(r)
        arrays.append(a)
    if off != len(blob):
        raise ValueError("trailing bytes: %d" % (len(blob) - off))
    return keys, arrays, common, iw, rw, size


# ---------------------------------------------------------------- families

def coord_tuples(arity):
    out = []
    seen = set()
    for p in range(arity):
        for v in ALPHA:
            t = tuple(v if i == p else 0 for i in range(arity))
            if t not in seen:
                seen.add(t)
                out.append(t)
    t = (1,) * arity
    if t not in seen:
        out.append(t)
    return out


def key_lists(tier, arity, n):
    T = coord_tuples(arity)
    if n == 0:
        return [()]
    if n <= 2:
        return list(itertools.permutations(T, n))
    out = []
    for c in itertools.combinations(T, n):
        out.append(c)
        out.append(tuple(reversed(c)))
    return out


def family_blocks(tier):
    """Blocks: (arity, n, slice of key lists)."""
    out = []
    maxn = 2 if tier == "quick" else 3
    for arity in (1, 2, 3, 4):
        for n in range(0, maxn + 1):
            if n == 0 and arity > 1:
                continue  # with no entries the arity is unobservable
            kl = key_lists(tier, arity, n)
            step = 40 if n <= 2 else 60
            for i in range(0, len(kl), step):
                out.append(("files", {"arity": arity, "n": n, "i0": i, "i1": min(len(kl), i + step), "tier": tier}))
    return out


def cases_of_block(p):
    """Yield (keys, arrays, common)."""
    kl = key_lists(p["tier"], p["arity"], p["n"])[p["i0"]:p["i1"]]
    R = ROWIDS5 if p["n"] <= 2 else ROWIDS3
    for keys in kl:
        for common in ALPHA:
            for arrays in itertools.product(R, repeat=p["n"]):
                yield list(keys), [list(a) for a in arrays], common


# ---------------------------------------------------------------- entries of very different lengths in one file
# (a writer that batches small arrays and streams large ones, a reader that converts per file instead of per entry ...)
MIXED_LENGTHS = [0, 1, 5, 4096, 16383, 16384, 16385, 65536, 70000]


def mixed_cases():
    longs = [n for n in MIXED_LENGTHS if n > 100]
    out = [[a, b] for a in MIXED_LENGTHS for b in MIXED_LENGTHS]
    out += [[5, x, 1] for x in longs] + [[x, 0, 5] for x in longs] + [[1, x, y] for x in longs for y in longs if x != y]
    return out


def mixed_arrays(lengths):
    """Distinct, strictly increasing row ids per entry (entry i: multiples of i+2 shifted by i), so that a misplaced block is visible."""
    return [(numpy.arange(n, dtype=numpy.int64) * (i + 2) + i).tolist() for i, n in enumerate(lengths)]


def mixed_keys(lengths):
    return [(i + 1, 7) for i in range(len(lengths))]


# ---------------------------------------------------------------- scratch files

def scratch_dir():
    """Per-run scratch directory (tmpfs), created and removed by the parent process (vf.cli)."""
    from . import core

    return core.scratch_dir()


def _p(name):
    return os.path.join(scratch_dir(), "%s-%d.indx" % (name, os.getpid()))


def lib_save(keys, arrays, common, path=None):
    """Run the real IndxIO.save; return the bytes written."""
    from catii.indxio import IndxIO

    path = path or _p("f")
    entries = {}
    for k, a in zip(keys, arrays):
        entries[tuple(k)] = numpy.array(a, dtype=numpy.uint32)
    with open(path, "wb") as f:
        IndxIO.save(f, entries, common, numpy.dtype(numpy.uint32))
    with open(path, "rb") as f:
        return f.read()


# ---------------------------------------------------------------- the write path under a crash model
# IndxIO.save is run on an UNBUFFERED real file (numpy's tofile needs a descriptor) whose content is snapshotted at every
# observable step: every method call on the file object and every source line executed inside catii/indxio.py.  Between two
# snapshots the changed byte regions are assumed to reach the file in ascending byte order within a region (regions in every
# order when there are several): every intermediate content is a crash state.

import io
import sys


class _LogFile(io.FileIO):
    def __init__(self, path, log):
        super().__init__(path, "w")
        self._vf_log = log
        self._vf_rfd = os.open(path, os.O_RDONLY)

    def vf_snap(self):
        if self._vf_rfd is None:
            return
        n = os.fstat(self._vf_rfd).st_size
        b = os.pread(self._vf_rfd, n, 0) if n else b""
        if not self._vf_log or self._vf_log[-1] != b:
            self._vf_log.append(b)

    def write(self, b):
        self.vf_snap()
        r = super().write(b)
        self.vf_snap()
        return r

    def seek(self, *a):
        self.vf_snap()
        return super().seek(*a)

    def truncate(self, *a):
        self.vf_snap()
        r = super().truncate(*a)
        self.vf_snap()
        return r

    def flush(self):
        self.vf_snap()
        return super().flush()

    def tell(self):
        self.vf_snap()
        return super().tell()

    def fileno(self):
        self.vf_snap()
        return super().fileno()

    def close(self):
        if not self.closed:
            self.vf_snap()
            os.close(self._vf_rfd)
            self._vf_rfd = None
        return super().close()


_MON_TOOL = 4


def lib_save_logged(keys, arrays, common, path=None):
    """Run the real IndxIO.save under the crash model; return (final bytes, list of snapshots in order)."""
    import catii.indxio as mod
    from catii.indxio import IndxIO

    path = path or _p("w")
    entries = {}
    for k, a in zip(keys, arrays):
        entries[tuple(k)] = numpy.array(a, dtype=numpy.uint32)
    log = [b""]
    f = _LogFile(path, log)
    mon = sys.monitoring
    fname = mod.__file__
    try:
        mon.use_tool_id(_MON_TOOL, "vf-indx")
        own = True
    except ValueError:
        own = False

    def on_line(code, line):
        if code.co_filename != fname:
            return mon.DISABLE
        if not f.closed:
            f.vf_snap()

    if own:
        mon.register_callback(_MON_TOOL, mon.events.LINE, on_line)
        mon.set_events(_MON_TOOL, mon.events.LINE)
    try:
        IndxIO.save(f, entries, common, numpy.dtype(numpy.uint32))
    finally:
        if own:
            mon.set_events(_MON_TOOL, 0)
            mon.register_callback(_MON_TOOL, mon.events.LINE, None)
            mon.free_tool_id(_MON_TOOL)
            mon.restart_events()
        f.close()
    with open(path, "rb") as g:
        final = g.read()
    if log[-1] != final:
        log.append(final)
    return final, log


def _regions(a, b):
    """Maximal runs of byte positions where content b differs from content a (positions beyond len(a) count as differing)."""
    n = len(b)
    out = []
    i = 0
    la = len(a)
    while i < n:
        if i >= la or a[i] != b[i]:
            j = i
            while j < n and (j >= la or a[j] != b[j]):
                j += 1
            out.append((i, j))
            i = j
        else:
            i += 1
    return out


def crash_states(log, final):
    """Every file content a crash can leave, except the complete final file; prefixes of the final file are returned as a set of lengths,
    everything else as explicit contents."""
    prefix_lengths = set()
    others = {}

    def add(state, step):
        if state == final:
            return
        if final.startswith(state):
            prefix_lengths.add(len(state))
        elif state not in others:
            others[state] = step

    for step in range(len(log) - 1):
        a, b = log[step], log[step + 1]
        add(a, step)
        if len(b) < len(a):
            add(b, step)      # a truncation: no intermediate content
            continue
        regs = _regions(a, b)
        orders = list(itertools.permutations(regs)) if len(regs) <= 3 else [tuple(regs), tuple(reversed(regs))]
        for order in orders:
            cur = bytearray(a)
            for (i, j) in order:
                if i == len(cur) and len(order) == 1:
                    # a pure append: the intermediate contents are prefixes of b
                    for k in range(i, j):
                        add(bytes(b[:k]), step)
                    cur = bytearray(b[:j])
                    continue
                for k in range(i, j):
                    if k >= len(cur):
                        cur.extend(b"\0" * (k + 1 - len(cur)))
                    add(bytes(cur), step)
                    cur[k] = b[k]
                if j > len(cur):
                    cur.extend(b"\0" * (j - len(cur)))
            # (the fully applied step is log[step + 1], added by the next iteration or equal to final)
    add(log[-1], len(log) - 1)
    return prefix_lengths, others


_LOAD_SEQ = 0


def lib_load_bytes(blob, path=None):
    """Write `blob` to a file of its own (the arrays IndxIO.load returns may be views of the mapped file: a file is never rewritten while
    a result of it may still be alive; it is unlinked at once - the mapping keeps the data), load it, return copies AND the raw result."""
    global _LOAD_SEQ
    from catii.indxio import IndxIO

    _LOAD_SEQ += 1
    path = os.path.join(scratch_dir(), "g-%d-%d.indx" % (os.getpid(), _LOAD_SEQ))
    with open(path, "wb") as f:
        f.write(blob)
    try:
        with open(path, "rb") as f:
            entries, common, dt = IndxIO.load(f)
            out = {k: numpy.array(v, copy=True) for k, v in entries.items()}
            kinds = {k: (type(v).__name__, str(v.dtype)) for k, v in entries.items()}
    finally:
        os.unlink(path)
    return out, common, dt, kinds, entries


def check_loaded(out, common_l, kinds, keys, arrays, common):
    """Compare what the loader returned with the input; return an error string or None."""
    if type(common_l) is not int:
        return "common is %r of type %s, not int" % (common_l, type(common_l).__name__)
    if common_l != common:
        return "common %r != %r" % (common_l, common)
    if len(out) != len(keys):
        return "entry count %d != %d" % (len(out), len(keys))
    for k, a in zip(keys, arrays):
        k = tuple(k)
        if k not in out:
            return "coordinates %r lost; loaded keys %r" % (k, list(out))
        lk = [kk for kk in out if kk == k][0]
        if type(lk) is not tuple or any(type(c) is not int for c in lk):
            return "coordinates %r are not a tuple of plain ints: %r" % (k, [type(c).__name__ for c in lk])
        v = out[k]
        if kinds[k][1] != "uint32":
            return "row ids of %r have dtype %s" % (k, kinds[k][1])
        if v.tolist() != list(a):
            return "row ids of %r: %r != %r" % (k, v.tolist()[:10], list(a)[:10])
    return None
