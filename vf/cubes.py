"""Shared machinery for the cube properties (C03, C04, C05, C13, C17, C18):
case alphabets, realisation of fact/weight specs into library arguments, the per-cell group-by oracle
(plain Python over the rows of each cell - no bincount, no strides, no marginal differencing),
and result normalisation/comparison."""
import itertools
import math

import numpy

from . import models as M

NaN = float("nan")
HUGE = 1e300

# ----------------------------------------------------------------------------- specs

# fact value tables: row r, column k.  Powers of two: every subset of cells has a distinct, exactly representable sum.
FACT_VALUES = {
    "pow2": lambda r, k: float(2 ** (r + 3 * k)),
    "mixed": lambda r, k: [0.0, -3.0, 5.0, 9.0, -17.0][(r + 2 * k) % 5],
}
POS_W = [0.5, 1.0, 2.0, 4.0, 8.0]  # row-specific positive weights (symbol 'P'): exactly representable
NEG_W = [-1.0, -2.0, -0.5, -4.0, -0.25]  # symbol 'N': negative (dyadic) weights - a cell's weight total may be negative or cancel to zero
DEC_W = [0.1, 0.2, 0.3, 0.7, 1.1]  # symbol 'D': sums that do NOT cancel exactly in binary floating point (0.1 + 0.2 != 0.3)


def make_fact(N, K, values_id, pattern, form):
    """Return (library argument, x[N][K] floats, valid[N][K] bools).

    K == 0 means a 1-D fact of shape (N,).  pattern: tuple of N*max(K,1) bools (True = missing), row-major.
    form: 'nan' float NaN-marked | 'pair-nan' (float, validity) hidden NaN | 'pair-huge' hidden 1e300 | 'int' (int64, validity) hidden 10**15
    """
    kk = max(K, 1)
    f = FACT_VALUES[values_id]
    x = [[f(r, k) for k in range(kk)] for r in range(N)]
    miss = [[bool(pattern[r * kk + k]) for k in range(kk)] for r in range(N)]
    valid = [[not m for m in row] for row in miss]
    shape = (N,) if K == 0 else (N, K)
    if form == "int":
        vals = numpy.array([[int(v) for v in row] for row in x], dtype=numpy.int64).reshape((N, kk))
        vals = vals.copy()
        for r in range(N):
            for k in range(kk):
                if miss[r][k]:
                    vals[r, k] = 10 ** 15
        arg = (vals.reshape(shape), numpy.array(valid, dtype=bool).reshape(shape))
    else:
        vals = numpy.array(x, dtype=float).reshape((N, kk))
        hidden = {"nan": NaN, "pair-nan": NaN, "pair-huge": HUGE}[form]
        for r in range(N):
            for k in range(kk):
                if miss[r][k]:
                    vals[r, k] = hidden
        if form == "nan":
            arg = vals.reshape(shape)
        else:
            arg = (vals.reshape(shape), numpy.array(valid, dtype=bool).reshape(shape))
    return arg, x, valid


def make_weights(N, spec):
    """spec: ('none',) | ('scalar', v) | ('array', symbols, form) with symbols over 'P','Z','M','1'
    form 'nan' | 'pair-nan' | 'pair-huge'.   Returns (library argument, w[N] floats, wvalid[N] bools)  (w None = unweighted)."""
    if spec[0] == "none":
        return None, None, None
    if spec[0] == "scalar":
        v = spec[1]
        ok = not (isinstance(v, float) and math.isnan(v))
        return v, [float(v) if ok else 0.0] * N, [ok] * N
    syms, form = spec[1], spec[2]
    w, ok = [], []
    for r, s in enumerate(syms):
        if s == "P":
            w.append(POS_W[r % len(POS_W)]); ok.append(True)
        elif s == "D":
            w.append(DEC_W[r % len(DEC_W)]); ok.append(True)
        elif s == "N":
            w.append(NEG_W[r % len(NEG_W)]); ok.append(True)
        elif s == "1":
            w.append(1.0); ok.append(True)
        elif s == "Z":
            w.append(0.0); ok.append(True)
        else:
            w.append(0.0); ok.append(False)
    if form == "nan":
        arg = numpy.array([wi if o else NaN for wi, o in zip(w, ok)], dtype=float)
    else:
        hidden = {"pair-nan": NaN, "pair-zero": 0.0}.get(form, HUGE)
        arg = (numpy.array([wi if o else hidden for wi, o in zip(w, ok)], dtype=float), numpy.array(ok, dtype=bool))
    return arg, w, ok


def weight_specs(N, level):
    """level 0: none + scalars; 1: + arrays over {P,M} and single-Z; 2: arrays over {P,Z,M}^N; 3: + forms"""
    out = [("none",), ("scalar", 2.0), ("scalar", 0.0), ("scalar", NaN)]
    if N == 0:
        return out + ([("array", (), "nan")] if level >= 1 else [])
    if level >= 2:
        out += [("array", s, "nan") for s in itertools.product("PZM", repeat=N)]
    elif level >= 1:
        seen = set()
        for s in itertools.product("PM", repeat=N):
            seen.add(s)
        for i in range(N):
            for base in ("P" * N, "M" * N):
                t = list(base); t[i] = "Z"; seen.add(tuple(t))
        seen.add(tuple("Z" * N))
        out += [("array", s, "nan") for s in sorted(seen)]
    if level >= 1:
        # decimal weights: marginal differencing leaves rounding residue in reconstructed cells
        out.append(("array", tuple("D" * N), "nan"))
        for i in range(N):
            t = list("D" * N); t[i] = "M"
            out.append(("array", tuple(t), "nan"))
    if level >= 3:
        out += [("array", s, "pair-nan") for s in itertools.product("PZM", repeat=N) if "M" in s][: 3 ** N]
        out += [("array", s, "pair-huge") for s in itertools.product("PM", repeat=N) if "M" in s]
    return out


def fact_patterns(N, K, level):
    """Missing patterns (tuples of N*max(K,1) bools). K==0 or 1: all 2^N. K==2: level>=2 all 4^N; else column-0 pattern x
    column-1 in {none, complement, all, same}."""
    kk = max(K, 1)
    if kk == 1 or level >= 2:
        return list(itertools.product((False, True), repeat=N * kk))
    out = []
    seen = set()
    for p0 in itertools.product((False, True), repeat=N):
        for p1 in (tuple([False] * N), tuple(not b for b in p0), tuple([True] * N), p0):
            cols = [p0, p1] + [p0] * (kk - 2)
            pat = tuple(cols[k][r] for r in range(N) for k in range(kk))
            if pat not in seen:
                seen.add(pat); out.append(pat)
    return out


# ----------------------------------------------------------------------------- oracle

def oracle(agg, cells, shape, N, K, x, valid, w, wok, ignore):
    """Per-cell group-by.  Returns (values float ndarray, missing bool ndarray) of shape `shape` (+ (K,) if K>0).

    cells: {coords: [rows]}.  x/valid: [N][kk] (None for count).  w/wok: [N] or None.
    Missing rule (C04): no row; or missing fact/weight values among the rows (all if ignore else any);
    for a mean additionally when the valid weights sum to zero.
    """
    kk = max(K, 1) if agg != "count" else 1
    oshape = tuple(shape) + ((K,) if (K > 0 and agg != "count") else ())
    vals = numpy.zeros(oshape, dtype=float)
    miss = numpy.ones(oshape, dtype=bool)
    for coords in itertools.product(*[range(s) for s in shape]):
        rows = cells.get(coords, [])
        for k in range(kk):
            okrows = []
            for r in rows:
                ok = True
                if agg != "count" and not valid[r][k]:
                    ok = False
                if w is not None and not wok[r]:
                    ok = False
                okrows.append(ok)
            nvalid = sum(okrows)
            if not rows:
                m = True
            elif ignore:
                m = nvalid == 0
            else:
                m = nvalid < len(rows)
            good = [r for r, o in zip(rows, okrows) if o]
            if agg == "count":
                v = float(sum((w[r] for r in good), 0.0)) if w is not None else float(len(rows))
            elif agg == "valid_count":
                v = float(sum((w[r] for r in good), 0.0)) if w is not None else float(len(good))
            elif agg == "sum":
                v = float(sum(((x[r][k] * (w[r] if w is not None else 1.0)) for r in good), 0.0))
            elif agg == "mean":
                num = sum(((x[r][k] * (w[r] if w is not None else 1.0)) for r in good), 0.0)
                den = sum(((w[r] if w is not None else 1.0) for r in good), 0.0)
                if den == 0:
                    m = True
                    v = 0.0
                else:
                    v = num / den
            else:
                raise KeyError(agg)
            pos = coords + ((k,) if (K > 0 and agg != "count") else ())
            vals[pos] = v
            miss[pos] = m
    return vals, miss


# ----------------------------------------------------------------------------- running the library

PAIR = (0, False)


def call_cube(cube, agg, fact_arg, w_arg, ignore, fmt, N=None):
    if agg == "count":
        return cube.count(w_arg, N, ignore, fmt)
    return getattr(cube, agg)(fact_arg, w_arg, ignore, fmt)


def normalise(res, fmt):
    """-> (values ndarray float, missing ndarray bool or None)"""
    if isinstance(fmt, tuple):
        if not (isinstance(res, tuple) and len(res) == 2):
            raise TypeError("pair format returned %r" % (type(res),))
        return numpy.asarray(res[0]), ~numpy.asarray(res[1]).astype(bool)
    arr = numpy.asarray(res)
    if isinstance(fmt, float) and math.isnan(fmt):
        return arr, numpy.isnan(arr.astype(float))
    return arr, None


def compare(vals, miss, evals, emiss, grand, zero_dim=False):
    """Return None or a message. Missing cells compared exactly, values within 1e-9 * grand total."""
    vals = numpy.asarray(vals)
    if zero_dim and vals.shape != evals.shape and vals.size == evals.size:
        vals = vals.reshape(evals.shape)
        miss = miss.reshape(emiss.shape)
    if vals.shape != evals.shape:
        return "shape %r, expected %r" % (vals.shape, evals.shape)
    if miss.shape != emiss.shape:
        return "missing-mask shape %r, expected %r" % (miss.shape, emiss.shape)
    if not numpy.array_equal(miss, emiss):
        return "missing cells %r, expected %r (values %r, expected %r)" % (miss.astype(int).tolist(), emiss.astype(int).tolist(), numpy.asarray(vals).tolist(), evals.tolist())
    ok = ~emiss
    if ok.any():
        a = vals[ok].astype(float)
        b = evals[ok]
        tol = 1e-9 * max(1.0, abs(grand))
        bad = ~(numpy.abs(a - b) <= tol)
        if bad.any():
            return "values %r, expected %r (missing %r)" % (numpy.asarray(vals).tolist(), evals.tolist(), emiss.astype(int).tolist())
    return None


def grand_total(x, w, N, K):
    kk = max(K, 1)
    g = 0.0
    for r in range(N):
        ww = abs(w[r]) if w is not None else 1.0
        if x is None:
            g += ww
        else:
            for k in range(kk):
                g += abs(x[r][k]) * max(ww, 1.0)
    return max(g, float(N))


# ----------------------------------------------------------------------------- cube enumeration

def dim_options(N, extra, E):
    shape = (N,) + tuple(extra)
    out = []
    for a in M.all_arrays(shape, range(E)):
        for c in range(E + 1):
            out.append((a, c))
    return out


def cells_for(denses1d, N):
    return M.cell_rows(denses1d, None, N)


def unsigned_view(dense):
    """The dtype iindex.to_array() would yield by default for non-negative ints (minimal unsigned)."""
    mx = int(dense.max()) if dense.size else 0
    for t in (numpy.uint8, numpy.uint16, numpy.uint32, numpy.uint64):
        if mx <= numpy.iinfo(t).max:
            return dense.astype(t)


# ----------------------------------------------------------------------------- pipelines: a cube object that outlives a change of its dimensions
def in_place_changes(dims, denses):
    """Yield (label, apply, new_denses): successive in-place changes of the FIRST index dimension that a cube built earlier over `dims` must
    follow (a cube holds its dimensions, not a snapshot of them).  apply() performs the change on dims[0]; new_denses is what the dimensions
    stand for afterwards.  The changes: re-expression under another common value (data unchanged), one whole entry returned to the common
    value (difference_update), one cell given another value (update)."""
    ix = dims[0]
    if len(ix.shape) > 2:
        return      # the in-place operations are written for one- and two-axis indexes (DESIGN 9: three-axis indexes are sliced, not changed)
    cur = numpy.array(denses[0], dtype=numpy.int64, copy=True)
    rest = list(denses[1:])
    other = next(v for v in (1, 0, 2) if v != ix.common)
    yield ("shift_common(%d)" % other, (lambda: ix.shift_common(other)), [cur.copy()] + rest)
    # (evaluated after the caller has applied the previous change)
    keys = sorted(dict.keys(ix), key=repr)
    if keys:
        k = keys[-1]
        rows = numpy.array(dict.__getitem__(ix, k), dtype=numpy.uint32, copy=True)
        cur[(rows.astype(numpy.int64),) + tuple(k[1:])] = ix.common
        yield ("difference_update(%r)" % (k,), (lambda: ix.difference_update({k: rows})), [cur.copy()] + rest)
    if cur.size:
        cell = (0,) * cur.ndim
        nv = (int(cur[cell]) + 1) % 3
        cur[cell] = nv
        yield ("update(%r -> %d)" % (cell, nv), (lambda: ix.update({(nv,) + cell[1:]: numpy.array([0], dtype=numpy.uint32)})), [cur.copy()] + rest)
