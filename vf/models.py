"""Reference models: boring Python, never calling the code under test (except the iindex constructor
given ready uint32 arrays, which only stores them)."""
import itertools

import numpy

U32 = numpy.dtype(numpy.uint32)


def build_index(dense, common, order="sorted"):
    """dense: integer ndarray of rank 1..3 -> iindex with the given common value (may be absent)."""
    from catii.iindexes import iindex

    dense = numpy.asarray(dense)
    ent = {}
    shape = tuple(int(s) for s in dense.shape)
    higher = list(itertools.product(*[range(s) for s in shape[1:]]))
    for hc in higher:
        for r in range(shape[0]):
            v = int(dense[(r,) + hc])
            if v == common:
                continue
            ent.setdefault((v,) + hc, []).append(r)
    keys = sorted(ent)
    if order == "reverse":
        keys = keys[::-1]
    entries = {k: numpy.array(ent[k], dtype=U32) for k in keys}
    return iindex(entries, common, shape)


class ModelError(Exception):
    pass


def read_dense(idx, dtype=numpy.int64):
    """Independent index -> dense reader. Raises ModelError on malformed content."""
    shape = tuple(idx.shape)
    out = numpy.full(shape, idx.common, dtype=dtype)
    claimed = numpy.zeros(shape, dtype=bool)
    for coords, rowids in dict.items(idx):
        if len(coords) != len(shape):
            raise ModelError("entry %r has arity %d, index has %d axes" % (coords, len(coords), len(shape)))
        for r in numpy.asarray(rowids).tolist():
            pos = (r,) + tuple(coords[1:])
            if not all(0 <= p < s for p, s in zip(pos, shape)):
                raise ModelError("entry %r row %r outside shape %r" % (coords, r, shape))
            if claimed[pos]:
                raise ModelError("cell %r claimed twice" % (pos,))
            claimed[pos] = True
            out[pos] = coords[0]
    return out


def scaffold_of(dense_dims):
    """Extra-axis extents, in dimension order then axis order."""
    return tuple(int(e) for d in dense_dims for e in d.shape[1:])


def sub_dims(dense_dims, flat_coords):
    """Slice every dimension down to 1-D at the given flattened extra coordinates."""
    out = []
    i = 0
    for d in dense_dims:
        k = d.ndim - 1
        c = tuple(flat_coords[i:i + k])
        i += k
        out.append(d[(slice(None),) + c] if k else d)
    return out


def cell_rows(dims1d, shape, nrows):
    """{coords: [rows]} for 1-D dense dims (only non-empty cells)."""
    cells = {}
    for r in range(nrows):
        c = tuple(int(d[r]) for d in dims1d)
        cells.setdefault(c, []).append(r)
    return cells


def count_table(dense_dims, shape, nrows):
    """Brute-force contingency table with extra axes outermost."""
    sc = scaffold_of(dense_dims)
    out = numpy.zeros(sc + tuple(shape), dtype=numpy.int64)
    for fc in itertools.product(*[range(e) for e in sc]):
        d1 = sub_dims(dense_dims, fc)
        for r in range(nrows):
            c = tuple(int(d[r]) for d in d1)
            if all(0 <= x < s for x, s in zip(c, shape)):
                out[fc + c] += 1
            else:
                raise ModelError("data value %r outside explicit shape %r" % (c, shape))
    return out


def all_arrays(shape, values):
    """Every integer array of the given shape over the given values (row-major enumeration)."""
    n = 1
    for s in shape:
        n *= s
    for t in itertools.product(values, repeat=n):
        yield numpy.array(t, dtype=numpy.int64).reshape(shape)
