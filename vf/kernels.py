"""Shared enumeration for C08 (exact set algebra) and C09 (memory safety) of the merge kernels."""
import itertools

import numpy

U32 = numpy.dtype(numpy.uint32)

LOW = {"quick": 7, "thorough": 9}
HIGH = {
    "quick": [0, 1, 2 ** 31 - 1, 2 ** 31, 2 ** 32 - 2, 2 ** 32 - 1],
    "thorough": [0, 1, 2, 2 ** 31 - 1, 2 ** 31, 2 ** 32 - 3, 2 ** 32 - 2, 2 ** 32 - 1],
}


def universes(tier):
    return {"low": list(range(LOW[tier])), "high": HIGH[tier]}


def subset(universe, mask):
    return [v for i, v in enumerate(universe) if mask >> i & 1]


def arr(vals):
    return numpy.array(vals, dtype=U32)


def strided(vals):
    """The same values as a NON-contiguous view (every 2nd element of a larger array holding junk in between)."""
    big = numpy.full(2 * len(vals) + 1, 0xDEAD, dtype=U32)
    big[::2][: len(vals)] = vals
    v = big[::2][: len(vals)]
    return v


def pair_blocks(tier, chunk=8):
    out = []
    for uname, uni in universes(tier).items():
        n = 1 << len(uni)
        for a0 in range(0, n, chunk):
            out.append(("pairs", {"u": uname, "a0": a0, "a1": min(n, a0 + chunk)}))
    return out


def many_families(tier):
    """(name, universe, max list length)"""
    fams = [("many-u4", [0, 1, 2, 3], 3), ("many-u3x4", [0, 1, 2], 4), ("many-high", [0, 2 ** 32 - 2, 2 ** 32 - 1], 3)]
    if tier == "thorough":
        fams += [("many-u5", [0, 1, 2, 3, 4], 3), ("many-u2x6", [0, 1], 6), ("many-high4", [0, 2 ** 31, 2 ** 32 - 2, 2 ** 32 - 1], 3)]
    return fams


def many_blocks(tier):
    out = []
    for name, uni, k in many_families(tier):
        for n in range(k + 1):
            out.append(("many", {"fam": name, "n": n}))
    return out


def many_lists(tier, fam, n):
    for name, uni, k in many_families(tier):
        if name == fam:
            subs = [subset(uni, m) for m in range(1 << len(uni))]
            return itertools.product(subs, repeat=n)
    raise KeyError(fam)


def check_result(res, expect_sorted_list):
    """Return None if res is a strictly increasing uint32 array equal to the expectation."""
    if not isinstance(res, numpy.ndarray):
        return "result is %r, not an array" % (type(res),)
    if res.dtype != U32:
        return "dtype %s" % res.dtype
    if res.ndim != 1:
        return "ndim %d" % res.ndim
    got = res.tolist()
    if got != expect_sorted_list:
        return "got %r expected %r" % (got, expect_sorted_list)
    return None


def overlapping(A, B):
    return bool(A) and bool(B) and not (A[0] > B[-1] or B[0] > A[-1])


# ----------------------------------------------------------------------------- long runs vs sparse probes
# One operand is a long contiguous run (optionally with one hole), the other has 1..k sparse elements:
# the shape a block-skipping / galloping optimisation of a merge loop is written for.
RUNS = {
    "quick": dict(U=20, lens=[8, 9, 10, 16, 17], k=2),
    "thorough": dict(U=36, lens=[7, 8, 9, 10, 11, 15, 16, 17, 18, 31, 32, 33], k=2),
}


def run_sets(tier):
    cfg = RUNS[tier]
    out = []
    for ln in cfg["lens"]:
        for a in range(0, cfg["U"] - ln + 1):
            base = list(range(a, a + ln))
            out.append(base)
            for h in range(ln):
                out.append(base[:h] + base[h + 1:])
    return out


def probe_sets(tier):
    import itertools as it

    cfg = RUNS[tier]
    out = []
    for k in range(1, cfg["k"] + 1):
        out.extend(list(c) for c in it.combinations(range(cfg["U"]), k))
    return out


def run_blocks(tier, chunk=40):
    n = len(run_sets(tier))
    return [("runs", {"a0": i, "a1": min(n, i + chunk)}) for i in range(0, n, chunk)]


# ----------------------------------------------------------------------------- block-size boundaries
# Structured sets whose lengths sit on either side of powers of two: what a blocked / SIMD / galloping rewrite of a merge
# loop (process 16/32/64 elements at a time, then a scalar tail) gets wrong.
BLOCK_LENS = {
    "quick": [15, 16, 17, 31, 32, 33, 63, 64, 65, 127, 128, 129, 255, 256, 257, 511, 512, 513, 1023, 1024, 1025],
    "thorough": [15, 16, 17, 31, 32, 33, 63, 64, 65, 127, 128, 129, 255, 256, 257, 511, 512, 513, 1023, 1024, 1025, 2047, 2048, 2049, 4095, 4096, 4097, 8191, 8192, 8193],
}
BLOCK_PATTERNS = ["dense", "evens", "odds", "thirds", "shifted", "twoblocks"]


def expand(desc):
    """{'pat':..., 'n':...} -> sorted list of n values (a plain list is returned unchanged)."""
    if isinstance(desc, list):
        return desc
    pat, n = desc["pat"], desc["n"]
    if pat == "dense":
        return list(range(n))
    if pat == "evens":
        return list(range(0, 2 * n, 2))
    if pat == "odds":
        return list(range(1, 2 * n, 2))
    if pat == "thirds":
        return list(range(0, 3 * n, 3))
    if pat == "shifted":
        return list(range(n // 2, n // 2 + n))
    if pat == "twoblocks":
        h = n // 2
        return list(range(h)) + list(range(4 * n, 4 * n + (n - h)))
    raise KeyError(pat)


def block_descs(tier):
    return [{"pat": p, "n": n} for n in BLOCK_LENS[tier] for p in BLOCK_PATTERNS]


def huge_pairs(tier):
    """(long structured operand, short operand) around 16-bit sizes: 65 535 / 65 536 / 65 537 elements against 1-3 element probes and against
    a 2 000-element operand."""
    out = []
    for n in (65535, 65536, 65537) + ((131073, 262145) if tier == "thorough" else ()):
        for pat in ("dense", "evens", "thirds"):
            A = expand({"pat": pat, "n": n})
            for B in tiny_probes(A):
                out.append(({"pat": pat, "n": n}, B))
            out.append(({"pat": pat, "n": n}, {"pat": "evens", "n": 2000}))
            out.append(({"pat": pat, "n": n}, {"pat": "shifted", "n": 2049}))
    # two LONG operands with more than 2^16 (2^17) elements in common: results that outgrow any initial buffer size or block length
    for n in (65537, 131073) + ((262145,) if tier == "thorough" else ()):
        out.append(({"pat": "dense", "n": n}, {"pat": "dense", "n": n}))
        out.append(({"pat": "dense", "n": 2 * n}, {"pat": "evens", "n": n}))
        out.append(({"pat": "evens", "n": n}, {"pat": "dense", "n": 2 * n}))
        out.append(({"pat": "evens", "n": 3 * n}, {"pat": "thirds", "n": 2 * n}))
    return out


def block_blocks(tier, chunk=6):
    n = len(block_descs(tier))
    return [("blocked", {"a0": i, "a1": min(n, i + chunk)}) for i in range(0, n, chunk)]


def tiny_probes(A):
    """1-3 element operands against a long one (ratios up to 1000:1: bisecting / galloping fast paths): present and absent values at the
    first, second, middle, penultimate and last positions."""
    n = len(A)
    sa = set(A)
    picks = sorted({0, 1, n // 2, n - 2, n - 1})
    out = [[A[i]] for i in picks]
    absent = [v for v in (A[0] - 1, A[n // 2] + 1, A[-1] - 1, A[-1] + 1, A[-1] + 1000) if v >= 0 and v not in sa]
    out += [[v] for v in absent]
    out += [[A[0], A[-1]], [A[n // 2], A[-1]], [A[0], A[n // 2]], [A[1], A[-2]], [A[0], A[n // 2], A[-1]]]
    if absent:
        out += [sorted({A[0], absent[-1]}), sorted({absent[0], A[-1]})]
    return out


# ----------------------------------------------------------------------------- many inputs for the multi-way union
# 5..18 arrays (pairwise / tree reductions, heap-based merges): distinct singletons, chained pairs, identical arrays, empties in between.
def many_long_lists(tier):
    out = []
    top = 18 if tier == "quick" else 34
    for n in list(range(5, top + 1)) + [63, 64, 65, 66, 100, 129, 130, 257, 300]:
        out.append([[10 * i] for i in range(n)])
        out.append([[10 * (n - i)] for i in range(n)])
        out.append([[i, i + 1] for i in range(n)])
        out.append([[7, 9]] * n)
        out.append([[i] if i % 3 else [] for i in range(n)])
        out.append([[i, 100 + i, 4294967295 - i] for i in range(n)])
        out.append([list(range(i, 3 * n, n)) for i in range(n)])
    return out


def shared_buffer_views():
    """Pairs of strictly increasing views cut from ONE buffer (same start and length but different strides, overlapping windows, the same view
    twice): identity of memory is not equality of content."""
    base = numpy.arange(16, dtype=U32)
    specs = [(0, 2, 1), (0, 4, 2), (0, 8, 4), (0, 4, 1), (0, 8, 2), (1, 5, 2), (1, 3, 1), (0, 16, 5), (2, 14, 4), (0, 16, 1), (15, 16, 1), (0, 0, 1)]
    views = [(sp, base[sp[0]:sp[1]:sp[2]]) for sp in specs]
    return [(sa, a, sb, b) for sa, a in views for sb, b in views]
