"""Build catii's Cython kernels from the *working tree* .pyx (never trust the in-tree .so).

Variants (all from the same source text):
  plain - the file as is
  bc    - every boundscheck(False)/boundscheck=False rewritten to True (wraparound stays
          off, so negative indices are errors too): an out-of-range memoryview access
          raises IndexError
  asan  - unmodified generated C compiled with clang -fsanitize=address
"""
import glob
import hashlib
import os
import re
import shutil
import subprocess
import sys
import sysconfig
import fcntl

VERIF = os.path.dirname(os.path.dirname(os.path.abspath(__file__)))
REPO = os.environ.get("VERIF_REPO", "/repo")
BUILD_ROOT = os.path.join(VERIF, ".build")
PYX = os.path.join(REPO, "src", "catii", "set_operations.pyx")
EXT_SUFFIX = sysconfig.get_config_var("EXT_SUFFIX")


class BuildError(Exception):
    pass


def pyx_text():
    with open(PYX, "r") as f:
        return f.read()


def variant_text(variant):
    """Return (text, info) for the variant."""
    text = pyx_text()
    info = {}
    if variant == "bc":
        new, n1 = re.subn(r"boundscheck\(\s*False\s*\)", "boundscheck(True)", text)
        new, n2 = re.subn(r"boundscheck\s*=\s*False", "boundscheck=True", new)
        info["rewritten_directives"] = n1 + n2
        text = new
    return text, info


def _sha(variant, text):
    h = hashlib.sha256()
    h.update(variant.encode())
    h.update(b"\0")
    h.update(text.encode())
    h.update(sys.version.encode())
    return h.hexdigest()[:16]


def _run(cmd, cwd=None):
    p = subprocess.run(cmd, cwd=cwd, stdout=subprocess.PIPE, stderr=subprocess.STDOUT, text=True)
    if p.returncode != 0:
        raise BuildError("command failed: %s\n%s" % (" ".join(cmd), p.stdout[-4000:]))
    return p.stdout


def build(variant="plain"):
    """Return (path_to_so, info). Builds if the hash of the (rewritten) source is new."""
    import numpy

    text, info = variant_text(variant)
    sha = _sha(variant, text)
    outdir = os.path.join(BUILD_ROOT, "%s-%s" % (variant, sha))
    so = os.path.join(outdir, "set_operations" + EXT_SUFFIX)
    info["sha"] = sha
    if os.path.exists(so):
        return so, info
    os.makedirs(BUILD_ROOT, exist_ok=True)
    lockf = open(os.path.join(BUILD_ROOT, ".lock"), "w")
    fcntl.flock(lockf, fcntl.LOCK_EX)
    try:
        if os.path.exists(so):
            return so, info
        tmp = outdir + ".tmp%d" % os.getpid()
        shutil.rmtree(tmp, ignore_errors=True)
        os.makedirs(tmp)
        pyx = os.path.join(tmp, "set_operations.pyx")
        with open(pyx, "w") as f:
            f.write(text)
        cfile = os.path.join(tmp, "set_operations.c")
        cython = os.path.join(os.path.dirname(sys.executable), "cython")
        if not os.path.exists(cython):
            cython = "/venv/bin/cython"
        cy = [cython, "-3", pyx, "-o", cfile]
        if variant == "bc" and info.get("rewritten_directives", 0) == 0:
            # someone removed the decorators: force the directive globally
            cy[1:1] = ["-X", "boundscheck=True"]
            info["forced_global_boundscheck"] = True
        _run(cy)
        inc = ["-I" + sysconfig.get_paths()["include"], "-I" + numpy.get_include()]
        tso = os.path.join(tmp, "set_operations" + EXT_SUFFIX)
        common = ["-shared", "-fPIC", "-w", "-DNPY_NO_DEPRECATED_API=NPY_1_7_API_VERSION"]
        if variant == "asan":
            cc = ["clang", "-O1", "-g", "-fsanitize=address", "-fno-omit-frame-pointer"]
        else:
            cc = ["gcc", "-O1"]
        _run(cc + common + inc + [cfile, "-o", tso])
        os.remove(cfile)
        os.remove(pyx)
        if os.path.exists(outdir):
            shutil.rmtree(outdir)
        os.rename(tmp, outdir)
        _prune(variant, keep=outdir)
    finally:
        fcntl.flock(lockf, fcntl.LOCK_UN)
        lockf.close()
    return so, info


def _prune(variant, keep, n=3):
    dirs = [d for d in glob.glob(os.path.join(BUILD_ROOT, variant + "-*")) if os.path.isdir(d)]
    dirs.sort(key=os.path.getmtime, reverse=True)
    for d in dirs[n:]:
        if d != keep:
            shutil.rmtree(d, ignore_errors=True)


def asan_runtime():
    c = glob.glob("/usr/lib/llvm-14/lib/clang/*/lib/linux/libclang_rt.asan-x86_64.so")
    return c[0] if c else None


if __name__ == "__main__":
    for v in sys.argv[1:] or ["plain", "bc"]:
        try:
            so, info = build(v)
        except BuildError as e:
            print("BUILD FAILED (%s): %s" % (v, e))
            sys.exit(2)
        print(v, so, info)
