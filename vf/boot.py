"""Import catii from the working tree with a freshly built kernel module."""
import importlib.machinery
import importlib.util
import os
import sys

from . import build as _build

_loaded = {}


def load(variant="plain"):
    """Import catii (python from $VERIF_REPO/src, kernels from our build). Idempotent.

    Returns the catii package. Only one variant can be loaded per process.
    """
    if _loaded:
        if variant not in _loaded:
            raise RuntimeError("catii already loaded with variant %r" % (list(_loaded),))
        return _loaded[variant]
    so, info = _build.build(variant)
    src = os.path.join(_build.REPO, "src")
    sys.path.insert(0, src)
    for name in list(sys.modules):
        if name == "catii" or name.startswith("catii."):
            del sys.modules[name]
    loader = importlib.machinery.ExtensionFileLoader("catii.set_operations", so)
    spec = importlib.util.spec_from_file_location("catii.set_operations", so, loader=loader)
    mod = importlib.util.module_from_spec(spec)
    loader.exec_module(mod)
    sys.modules["catii.set_operations"] = mod
    import catii  # noqa

    assert os.path.realpath(catii.__file__).startswith(os.path.realpath(src)), catii.__file__
    catii.set_operations = mod
    import catii.iindexes, catii.ccubes, catii.xcubes, catii.ffuncs, catii.xfuncs, catii.indxio  # noqa

    assert catii.iindexes.union is mod.union
    catii._vf_build_info = info
    _loaded[variant] = catii
    return catii
