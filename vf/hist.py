"""Engine `hist`: explicit-state breadth-first search, to a fixpoint, over histories of real iindex
operations, with a dense NumPy model stepped in lock-step (C06, C07, C15, C17-index-part).

A state is the *concrete* content of an index: (shape, common, sorted entries with row-id bytes).
Every transition is executed on a fresh object rebuilt from the key (not with the library's copy()).
The dense model of a well-formed state is a function of the state (models.read_dense), so the
lock-step model is: expected(result) = numpy_model(op, read_dense(state), args).

A transition that violates any invariant is reported and its target is NOT expanded.
"""
import itertools
import multiprocessing
import os
import time

import numpy

from . import core
from . import models as M

U32 = numpy.dtype(numpy.uint32)
VALS = (0, 1, 2)
COMMONS = (0, 1, 2, 3)

BOUNDS = {
    "quick": dict(R=2, C=2, R3=1, prec_max=2, two_orders=False),
    # RC: maximum row count per column count (None = 1-D); columns beyond the table are not generated
    "thorough": dict(R=3, C=3, R3=2, prec_max=3, two_orders=True, R1=4, RC={None: 4, 1: 3, 2: 3, 3: 2}, absent_update_max_cells=4, value_bound_cells=4),
}


# ----------------------------------------------------------------------------- keys

def key_of(idx):
    ents = []
    for coords, rowids in dict.items(idx):
        a = numpy.asarray(rowids)
        ents.append((tuple(coords), a.tobytes(), a.dtype.str))
    ents.sort()
    return (tuple(idx.shape), idx.common, tuple(ents))


def build(key, reverse=False):
    from catii.iindexes import iindex

    shape, common, ents = key
    items = list(ents)
    if reverse:
        items = items[::-1]
    entries = {c: numpy.frombuffer(b, dtype=numpy.dtype(ds)).copy() for c, b, ds in items}
    return iindex(entries, common, tuple(shape))


def key_from_dense(dense, common):
    return key_of(M.build_index(dense, common))


def dense_of(key):
    return M.read_dense(build(key))


def describe_key(key):
    shape, common, ents = key
    return {"shape": list(shape), "common": common, "entries": {str(c): numpy.frombuffer(b, dtype=numpy.dtype(ds)).tolist() for c, b, ds in ents}}


def key_from_description(d):
    import ast

    ents = []
    for c, rows in d["entries"].items():
        a = numpy.array(rows, dtype=U32)
        ents.append((tuple(ast.literal_eval(c)), a.tobytes(), a.dtype.str))
    ents.sort()
    return (tuple(d["shape"]), d["common"], tuple(ents))


# ----------------------------------------------------------------------------- invariants

class Ctx:
    """Collects violations for one expansion."""

    def __init__(self, src_key, path_hint=None):
        self.src_key = src_key
        self.viol = []  # (property, site, detail, op descriptor)
        self.ntrans = 0
        self.succ = []
        self.stats = {}
        self.dense_outcomes = set()
        self.prune = {"C06", "C07", "C15", "C17"}
        self.value_bound_cells = None
        self.focus = None

    def v(self, prop, site, op, detail):
        self.viol.append((prop, site, op, str(detail)[:1500]))

    def stat(self, k, n=1):
        self.stats[k] = self.stats.get(k, 0) + n


def most_frequent_ok(dense, common):
    if dense.size == 0:
        return True
    vals, counts = numpy.unique(dense, return_counts=True)
    mx = int(counts.max())
    c = int((dense == common).sum())
    return c == mx


def wellformed(obj, exp_dense, opd, ctx, opname):
    """C07 invariants on obj; returns True if all hold."""
    ok = True

    def bad(site, detail):
        nonlocal ok
        ok = False
        ctx.v("C07", "%s:%s" % (opname, site), opd, detail)

    try:
        obj.validate(True)
    except Exception as e:  # noqa
        bad("validate", repr(e))
    shape = tuple(obj.shape)
    if not all(type(s) is int for s in shape):
        bad("shape-types", repr(shape))
    nrows = shape[0] if shape else 0
    for coords, rowids in dict.items(obj):
        if type(coords) is not tuple or len(coords) != len(shape):
            bad("arity", "entry %r in index of shape %r" % (coords, shape))
            continue
        if not isinstance(rowids, numpy.ndarray) or rowids.dtype != U32:
            bad("dtype", "entry %r: %r" % (coords, getattr(rowids, "dtype", type(rowids))))
            continue
        rl = rowids.tolist()
        if len(rl) == 0:
            bad("empty-entry", "entry %r has no rows (index %r)" % (coords, obj))
        if any(b <= a for a, b in zip(rl, rl[1:])):
            bad("not-increasing", "entry %r: %r" % (coords, rl))
        if rl and rl[-1] >= nrows:
            bad("row-out-of-range", "entry %r: %r, rows=%d" % (coords, rl, nrows))
        if any(not (0 <= c < s) for c, s in zip(coords[1:], shape[1:])):
            bad("coord-out-of-range", "entry %r in shape %r" % (coords, shape))
        if coords[0] == obj.common:
            bad("entry-under-common", "entry %r, common %r" % (coords, obj.common))
    if exp_dense is not None and ok:
        present = set(int(x) for x in exp_dense.flat)
        try:
            ab = obj.abscissae
            if set(ab) != present:
                bad("abscissae", "abscissae %r, values present %r" % (sorted(ab), sorted(present)))
            sp = obj.sparsity
            want = (100.0 * int((exp_dense == obj.common).sum()) / exp_dense.size) if exp_dense.size else 0
            if abs(sp - want) > 1e-9:
                bad("sparsity", "sparsity %r, expected %r" % (sp, want))
            if len(shape) >= 1 and all(v >= 0 for v in present | {obj.common}):
                from catii.ccubes import ccube

                cs = ccube([obj]).interacting_shape
                wantshape = (max(present | {obj.common}) + 1,)
                if tuple(cs) != wantshape:
                    bad("inferred-cube-shape", "ccube shape %r, expected %r" % (tuple(cs), wantshape))
        except Exception as e:  # noqa
            bad("observers-raised", repr(e))
    return ok


def dense_equal(obj, exp_dense, opd, ctx, opname):
    """C06: the result read back equals the model."""
    ok = True
    try:
        # to_array is the statement's observation point for 1-D and 2-D indexes; 3-D indexes (slicing only) are read by the independent reader
        got = obj.to_array(dtype=int) if len(obj.shape) <= 2 else M.read_dense(obj)
        if tuple(got.shape) != tuple(exp_dense.shape) or got.tolist() != exp_dense.tolist():
            ctx.v("C06", "%s:dense" % opname, opd, "to_array(dtype=int) = %r (shape %r), NumPy model = %r (shape %r); result index %r" % (got.tolist(), got.shape, exp_dense.tolist(), exp_dense.shape, obj))
            ok = False
    except Exception as e:  # noqa
        ctx.v("C06", "%s:to_array-raised" % opname, opd, "%r; result index %r" % (e, obj))
        ok = False
    if ok:
        try:
            got2 = M.read_dense(obj)
            if tuple(got2.shape) != tuple(exp_dense.shape) or got2.tolist() != exp_dense.tolist():
                ctx.v("C06", "%s:dense-reader" % opname, opd, "independent reader %r, model %r" % (got2.tolist(), exp_dense.tolist()))
                ok = False
        except M.ModelError:
            pass  # malformed: C07 reports it
    return ok


def equality_ok(obj, exp_dense, opd, ctx, opname):
    """C15b: result == harness-built twin with the same (shape, common, dense); != is the negation."""
    ok = True
    try:
        twin = M.build_index(exp_dense, obj.common)
        twin.shape = tuple(obj.shape)
    except Exception:
        return True
    for a, b, tag in ((obj, twin, "result==twin"), (twin, obj, "twin==result")):
        try:
            e = a == b
        except Exception as ex:  # noqa
            ctx.v("C15", "%s:eq-raised" % opname, opd, "%s raised %r" % (tag, ex))
            ok = False
            continue
        if e is not True:
            ctx.v("C15", "%s:unequal-to-twin" % opname, opd, "%s is %r: result %r, twin %r" % (tag, e, obj, twin))
            ok = False
        try:
            ne = a != b
        except Exception as ex:  # noqa
            ctx.v("C15", "%s:ne-raised" % opname, opd, "%s: != raised %r on %r vs %r" % (tag, ex, a, b))
            ok = False
            continue
        if ne is not (not e):
            ctx.v("C15", "%s:ne-not-negation" % opname, opd, "%s: == gives %r but != gives %r" % (tag, e, ne))
            ok = False
    return ok


def _library_accepts(obj):
    try:
        obj.validate(True)
        return True
    except Exception:
        return False


def check_result(obj, exp_dense, opd, ctx, opname, chosen_common=False, enqueue=True):
    """All invariants on a resulting state. Returns its key if clean.

    The target is enqueued for expansion unless the transition violated a property in ctx.prune (the property being
    decided, so that the first counterexample is the shortest and malformed states do not multiply) or the state cannot be
    modelled at all (the independent reader rejects it)."""
    n0 = len(ctx.viol)
    f = ctx.focus  # the property being decided: invariants that can only report OTHER properties are skipped (None = all)
    ok = dense_ok = dense_equal(obj, exp_dense, opd, ctx, opname)
    if f in (None, "C07", "C15"):
        wf = wellformed(obj, exp_dense if ok else None, opd, ctx, opname)
        ok = wf and ok
    if f in (None, "C15") and dense_ok and (ok or _library_accepts(obj)):
        # a result that stands for the right array and that the library's own validate() accepts must compare equal to its twin, whatever
        # else C07 has to say about it (e.g. an entry without rows)
        ok = equality_ok(obj, exp_dense, opd, ctx, opname) and ok
    if ok and f in (None, "C15") and chosen_common and not most_frequent_ok(exp_dense, obj.common):
        ctx.v("C15", "%s:common-not-most-frequent" % opname, opd, "library chose common %r for dense %r" % (obj.common, exp_dense.tolist()))
        ok = False
    ctx.ntrans += 1
    k = None
    if ok:
        k = key_of(obj)
        ctx.dense_outcomes.add((tuple(exp_dense.shape), exp_dense.tobytes()))
    if enqueue and ctx.value_bound_cells is not None and exp_dense is not None and exp_dense.size > ctx.value_bound_cells \
            and (set(int(x) for x in exp_dense.flat) - set(VALS)):
        # bounded search: the transition INTO this state has been checked like any other, but a state with more than
        # `value_bound_cells` cells is only expanded further while its values stay inside {0,1,2}
        ctx.stat("targets_outside_value_bound")
        enqueue = False
    if enqueue:
        blocking = any(v[0] in ctx.prune for v in ctx.viol[n0:])
        if ok:
            ctx.succ.append((k, opd))
        elif not blocking:
            # violates only a property other than the one being decided: keep exploring from it if it can be modelled
            try:
                M.read_dense(obj)
                ctx.succ.append((key_of(obj), opd))
            except Exception:
                pass
    return k


def unchanged(snap_key, obj, what, opd, ctx, opname, prop="C06"):
    if key_of(obj) != snap_key:
        ctx.v(prop, "%s:%s-modified" % (opname, what), opd, "%s changed from %r to %r" % (what, describe_key(snap_key), describe_key(key_of(obj))))
        return False
    return True


def no_shared_memory(src, res, opd, ctx, opname):
    for c1, a in dict.items(src):
        for c2, b in dict.items(res):
            if a.size and b.size and numpy.shares_memory(a, b):
                ctx.v("C06", "%s:shares-storage" % opname, opd, "result entry %r shares memory with source entry %r" % (c2, c1))
                return False
    return True


def alias_check(sources, res, opd, ctx, opname):
    """An index derived from others must behave as its own array from then on: mutating the result in place
    (shift_common, update, append) must leave every source index exactly as it was. Call last: `res` is consumed."""
    if ctx.focus not in (None, "C06", "C07"):
        return
    snaps = [(src, key_of(src)) for src in sources]

    def verify(step):
        for src, k in snaps:
            if key_of(src) != k:
                ctx.v("C06", "%s:source-changed-through-result" % opname, opd,
                      "after %s on the RESULT of %s the source index changed from %r to %r" % (step, opname, describe_key(k), describe_key(key_of(src))))
                try:
                    src.validate(True)
                    M.read_dense(src)
                except Exception as e:  # noqa
                    ctx.v("C07", "%s:source-malformed-through-result" % opname, opd,
                          "after %s on the RESULT of %s the untouched source index is no longer well-formed: %r (%r)" % (step, opname, e, src))
                return False
        return True

    try:
        shape = tuple(res.shape)
        if len(shape) > 2:
            return
        v = next(x for x in COMMONS if x != res.common)
        res.shift_common(v)
        if not verify("shift_common(%r)" % (v,)):
            return
        if shape and shape[0] > 0 and all(e > 0 for e in shape):
            cell = (0,) * len(shape)
            newv = 1 if res.common != 1 else 2
            res.update({(newv,) + cell[1:]: numpy.array([0], dtype=U32)})
            if not verify("update"):
                return
        if len(shape) >= 1:
            o = numpy.full((1,) + shape[1:], 2, dtype=numpy.int64)
            res.append(M.build_index(o, 0))
            if not verify("append"):
                return
        # entry-wise set algebra on the result: drop the first row of every entry that has two or more (an in-place compaction would
        # write into a buffer shared with a source), then give those rows back
        for k2 in sorted(dict.keys(res), key=repr):
            a = dict.get(res, k2)
            if a is not None and len(a) >= 2:
                first = numpy.array([int(a[0])], dtype=U32)
                res.difference_update({k2: first})
                if not verify("difference_update"):
                    return
                res.union_update({k2: first})
                if not verify("union_update"):
                    return
    except Exception as e:  # noqa
        ctx.v("C06", "%s:alias-check-raised" % opname, opd, "mutating the result raised %r" % (e,))
        return
    # ... and the other way round: changing a SOURCE in place afterwards must not reach the result
    try:
        rk = key_of(res)
        for src in sources:
            sshape = tuple(src.shape)
            if len(sshape) > 2 or src is res:
                continue
            v = next(x for x in COMMONS if x != src.common)
            src.shift_common(v)
            steps = ["shift_common(%r)" % (v,)]
            if sshape and all(e > 0 for e in sshape):
                cell = (0,) * len(sshape)
                newv = 1 if src.common != 1 else 2
                src.update({(newv,) + cell[1:]: numpy.array([0], dtype=U32)})
                steps.append("update")
            if len(sshape) >= 1:
                src.append(M.build_index(numpy.full((1,) + sshape[1:], 2, dtype=numpy.int64), 0))
                steps.append("append")
            if key_of(res) != rk:
                ctx.v("C06", "%s:result-changed-through-source" % opname, opd,
                      "after %s on a SOURCE of %s the result changed from %r to %r" % (", ".join(steps), opname, describe_key(rk), describe_key(key_of(res))))
                return
    except Exception as e:  # noqa
        ctx.v("C06", "%s:alias-check-raised" % opname, opd, "mutating a source raised %r" % (e,))


# ----------------------------------------------------------------------------- menus

def cells_of(shape):
    return list(itertools.product(*[range(s) for s in shape]))


def operand_arrays(nrows, cols):
    """All dense operands with nrows rows over VALS (cols None -> 1-D)."""
    shape = (nrows,) if cols is None else (nrows, cols)
    return list(M.all_arrays(shape, VALS))


def precedence_lists(maxlen):
    vals = (-1, 0, 1, 2)
    out = []
    for n in range(1, maxlen + 1):
        out.extend(itertools.permutations(vals, n))
    return out


def reindex_mappings(common, present):
    ms = [("default", None), ("identity", {0: 0, 1: 1, 2: 2}), ("swap01", {0: 1, 1: 0}), ("many", {0: 1, 2: 1}), ("partial", {1: 2})]
    ms.append(("onto-common", {v: common for v in (0, 1) if v != common}))
    ms.append(("common-onto-listed", {common: (1 if common != 1 else 2)}))
    ms.append(("rotate", {0: 1, 1: 2, 2: 0}))
    ms.append(("empty", {}))  # an explicit mapping that lists nothing is the identity, not "no mapping given"
    return ms


# ----------------------------------------------------------------------------- expansion

def expand(key, cfg, reverse=False, prune=None, focus=None):
    """Execute every enabled operation from the state `key`. Returns a Ctx."""
    from catii import iindexes
    from catii.iindexes import iindex
    from catii.indxio import IndxIO

    ctx = Ctx(key)
    if prune is not None:
        ctx.prune = set(prune)
    ctx.value_bound_cells = cfg.get("value_bound_cells")
    ctx.focus = focus
    shape, common, _ = key
    d = dense_of(key)
    ndim = len(shape)
    nrows = shape[0]
    R, C = cfg["R"], cfg["C"]
    if ndim == 1 and cfg.get("R1"):
        R = cfg["R1"]
    cols = None if ndim == 1 else shape[1]
    if cfg.get("RC") and ndim <= 2:
        R = cfg["RC"].get(cols, 0)
    fresh = lambda: build(key, reverse)  # noqa

    # --- observations on the state itself (C06 reading, C17 non-mutation) -----------------------
    s = fresh()
    opd = {"op": "observe"}
    try:
        if ndim <= 2:
            got = {}
            for coords, rowids in s.items(force=True):
                got.setdefault(tuple(coords), []).extend(numpy.asarray(rowids).tolist())
            td = s.to_dict(force=True)
            for hc in cells_of(shape[1:]):
                for v in set(int(x) for x in d.flat) | {common}:
                    want = [r for r in range(nrows) if d[(r,) + hc] == v]
                    g = s.get((v,) + hc, None, force=True)
                    gl = [] if g is None else numpy.asarray(g).tolist()
                    if gl != want:
                        ctx.v("C06", "get:force", opd, "get(%r, force=True) = %r, rows holding it %r" % ((v,) + hc, gl, want))
                    if got.get((v,) + hc, []) != want:
                        ctx.v("C06", "items:force", opd, "items(force=True)[%r] = %r, expected %r" % ((v,) + hc, got.get((v,) + hc), want))
                    if td.get((v,) + hc, []) != want:
                        ctx.v("C06", "to_dict:force", opd, "to_dict(force=True)[%r] = %r, expected %r" % ((v,) + hc, td.get((v,) + hc), want))
                cr = s.common_rowids(*hc).tolist()
                want = [r for r in range(nrows) if d[(r,) + hc] == common]
                if cr != want:
                    ctx.v("C06", "common_rowids", opd, "common_rowids%r = %r, expected %r" % (hc, cr, want))
            arr = s.to_array(dtype=int)
            if arr.tolist() != d.tolist():
                ctx.v("C06", "to_array", opd, "to_array(dtype=int) = %r, dense model %r" % (arr.tolist(), d.tolist()))
            vals_here = sorted(set(int(x) for x in d.flat) | {common})
            if vals_here:
                m2 = {v: 10 + i for i, v in enumerate(vals_here)}
                m2snap = dict(m2)
                arr2 = s.to_array(mapping=m2, dtype=int)
                want2 = numpy.vectorize(m2.get, otypes=[numpy.int64])(d) if d.size else d
                if arr2.tolist() != want2.tolist():
                    ctx.v("C06", "to_array:mapping", opd, "to_array(mapping) = %r, expected %r" % (arr2.tolist(), want2.tolist()))
                if m2 != m2snap:
                    ctx.v("C17", "to_array:mapping-modified", opd, "mapping changed")
        unchanged(key, s, "receiver", opd, ctx, "observe", prop="C17")
    except Exception as e:  # noqa
        ctx.v("C06", "observe:raised", opd, repr(e))
    ctx.ntrans += 1

    # --- copy ---------------------------------------------------------------------------------------
    s = fresh()
    opd = {"op": "copy"}
    try:
        r = s.copy()
        check_result(r, d, opd, ctx, "copy")
        no_shared_memory(s, r, opd, ctx, "copy")
        unchanged(key, s, "receiver", opd, ctx, "copy", prop="C17")
        alias_check([s], r, opd, ctx, "copy")
    except Exception as e:  # noqa
        ctx.v("C06", "copy:raised", opd, repr(e))

    if ndim == 3:
        # 3-D states: slicing and slice iteration only
        _expand_slicing(key, d, fresh, ctx)
        return ctx

    # --- shift_common ---------------------------------------------------------------------------------
    for v in (None,) + COMMONS:
        s = fresh()
        opd = {"op": "shift_common", "to": v}
        try:
            s.shift_common(v) if v is not None else s.shift_common()
            if v is not None and s.common != v:
                ctx.v("C06", "shift_common:common", opd, "common is %r after shift_common(%r)" % (s.common, v))
            check_result(s, d, opd, ctx, "shift_common", chosen_common=(v is None))
        except Exception as e:  # noqa
            ctx.v("C06", "shift_common:raised", opd, repr(e))

    # --- append -----------------------------------------------------------------------------------------
    for k in range(0, R - nrows + 1):
        for o in operand_arrays(k, cols):
            for oc in COMMONS:
                s = fresh()
                other = M.build_index(o, oc)
                okey = key_of(other)
                opd = {"op": "append", "other": o.tolist(), "other_common": oc}
                try:
                    s.append(other)
                    exp = numpy.concatenate([d, o]) if d.ndim == o.ndim else None
                    check_result(s, exp, opd, ctx, "append", chosen_common=True)
                    unchanged(okey, other, "operand", opd, ctx, "append")
                    if ctx.focus in (None, "C07"):
                        wellformed(other, o, dict(opd, operand_after=True), ctx, "append-operand")
                    alias_check([other], s, opd, ctx, "append")
                except Exception as e:  # noqa
                    ctx.v("C06", "append:raised", opd, repr(e))

    # the same index in both roles
    if 0 < nrows and 2 * nrows <= R:
        s = fresh()
        opd = {"op": "append", "other": "self"}
        try:
            s.append(s)
            check_result(s, numpy.concatenate([d, d]), opd, ctx, "append", chosen_common=True)
        except Exception as e:  # noqa
            ctx.v("C06", "append:raised", opd, repr(e))

    # --- update -----------------------------------------------------------------------------------------
    cells = cells_of(shape)
    upd_vals = sorted(set(VALS) | {common})
    if cfg.get("absent_update_max_cells") is not None and d.size > cfg["absent_update_max_cells"] and common not in VALS:
        # bound the value alphabet on the larger shapes: assigning an ABSENT common value (3, -1) to a cell is only done on small
        # arrays, otherwise every array over 5 values becomes reachable (5^6 per shape)
        upd_vals = sorted(VALS)
    assignments = [((c, v),) for c in cells for v in upd_vals]
    for c1, c2 in itertools.combinations(cells, 2):
        for v1, v2 in ((0, 1), (1, 1), (common, 2), (2, common)):
            assignments.append(((c1, v1), (c2, v2)))
    for asg in assignments:
        s = fresh()
        ent = {}
        exp = d.copy()
        for cell, v in asg:
            ent.setdefault((v,) + tuple(cell[1:]), []).append(cell[0])
            exp[cell] = v
        ent = {k2: numpy.array(sorted(rows), dtype=U32) for k2, rows in ent.items()}
        snap = {k2: a.copy() for k2, a in ent.items()}
        opd = {"op": "update", "assign": [[list(c), v] for c, v in asg]}
        try:
            s.update(ent)
            check_result(s, exp, opd, ctx, "update")
            if set(ent) != set(snap) or any(not numpy.array_equal(ent[k2], snap[k2]) for k2 in snap):
                ctx.v("C06", "update:operand-modified", opd, "entries argument changed")
        except Exception as e:  # noqa
            ctx.v("C06", "update:raised", opd, repr(e))

    # --- filtered ---------------------------------------------------------------------------------------
    for bits in itertools.product((False, True), repeat=nrows):
        s = fresh()
        mask = numpy.array(bits, dtype=bool)
        m0 = mask.copy()
        opd = {"op": "filtered", "mask": [bool(b) for b in bits]}
        try:
            r = s.filtered(mask, int(mask.sum()))
            check_result(r, d[mask], opd, ctx, "filtered", chosen_common=True)
            unchanged(key, s, "receiver", opd, ctx, "filtered", prop="C17")
            if not numpy.array_equal(mask, m0):
                ctx.v("C17", "filtered:mask-modified", opd, "mask changed")
            alias_check([s], r, opd, ctx, "filtered")
        except Exception as e:  # noqa
            ctx.v("C06", "filtered:raised", opd, repr(e))

    # --- reindexed --------------------------------------------------------------------------------------
    present = set(int(x) for x in d.flat)
    for name, m in reindex_mappings(common, present):
        # (copy, shift, assume_unique): on a well-formed index merged coordinates never share a row id (one value per cell), so the
        # caller's guarantee for assume_unique=True always holds; shift=False only skips the re-normalisation
        for copy, shift, au in ((True, True, False), (False, True, False), (True, True, True), (True, False, False), (False, False, True)):
            s = fresh()
            opd = {"op": "reindexed", "mapping": name, "map": None if m is None else {str(k2): v for k2, v in m.items()}, "copy": copy}
            if not shift or au:
                opd.update(shift=shift, assume_unique=au)
            if m is None:
                listed = sorted(present - {common})
                mm = {v: i for i, v in enumerate(listed)}
            else:
                mm = m
            m_arg = None if m is None else dict(m)
            exp = numpy.vectorize(lambda x: mm.get(int(x), int(x)), otypes=[numpy.int64])(d) if d.size else d.copy()
            try:
                r = s.reindexed(m_arg, copy=copy, shift=shift, assume_unique=au)
                check_result(r, exp, opd, ctx, "reindexed")
                if copy:
                    no_shared_memory(s, r, opd, ctx, "reindexed")
                unchanged(key, s, "receiver", opd, ctx, "reindexed", prop="C17")
                if m is not None and m_arg != m:
                    ctx.v("C17", "reindexed:mapping-modified", opd, "mapping changed to %r" % (m_arg,))
                alias_check([s], r, opd, ctx, "reindexed")
            except Exception as e:  # noqa
                ctx.v("C06", "reindexed:raised", opd, repr(e))

    # --- from_array(to_array()) and INDX save/reload -----------------------------------------------------
    s = fresh()
    opd = {"op": "from_array(to_array)"}
    try:
        r = iindex.from_array(s.to_array(dtype=int))
        check_result(r, d, opd, ctx, "from_array", chosen_common=True)
    except ValueError as e:
        if d.size:
            ctx.v("C06", "from_array:raised", opd, repr(e))
        else:
            ctx.ntrans += 1  # documented: no values and no common -> refuses to guess
    except Exception as e:  # noqa
        ctx.v("C06", "from_array:raised", opd, repr(e))
    if common >= 0 and all(v >= 0 for v in present):
        s = fresh()
        opd = {"op": "indx-save-load"}
        path = os.path.join(core.scratch_dir(), "h-%d.indx" % os.getpid())
        try:
            with open(path, "wb") as f:
                IndxIO.save(f, s, s.common, s.rowid_dtype)
            with open(path, "rb") as f:
                ents, cm, dt = IndxIO.load(f)
                ents = {k2: numpy.array(v2, copy=True) for k2, v2 in ents.items()}
            r = iindex(ents, cm, tuple(shape))
            check_result(r, d, opd, ctx, "indx")
            unchanged(key, s, "receiver", opd, ctx, "indx", prop="C17")
        except Exception as e:  # noqa
            ctx.v("C06", "indx:raised", opd, repr(e))

    # --- set updates (entry-wise set algebra) ------------------------------------------------------------
    _expand_set_updates(key, d, fresh, ctx)

    # --- column_stack ------------------------------------------------------------------------------------
    mycols = 1 if ndim == 1 else shape[1]
    for pc in ([None] + list(range(1, C - mycols + 1))) if mycols < C else []:
        newcols = mycols + (1 if pc is None else pc)
        if cfg.get("RC") and nrows > cfg["RC"].get(newcols, 0):
            continue
        for o in operand_arrays(nrows, pc):
            for oc in COMMONS:
                for nc in (None,) + COMMONS:
                    for copy in (False, True):
                        for order in (0, 1):
                            s = fresh()
                            other = M.build_index(o, oc)
                            okey = key_of(other)
                            lst = [s, other] if order == 0 else [other, s]
                            dl = [d, o] if order == 0 else [o, d]
                            opd = {"op": "column_stack", "partner": o.tolist(), "partner_common": oc, "new_common": nc, "copy": copy, "self_first": order == 0}
                            try:
                                r = iindexes.column_stack(lst, new_common=nc, copy=copy)
                                exp = numpy.column_stack(dl) if nrows else numpy.zeros((0, sum(1 if x.ndim == 1 else x.shape[1] for x in dl)), dtype=numpy.int64)
                                if nc is not None and r.common != nc:
                                    ctx.v("C06", "column_stack:common", opd, "common %r, requested %r" % (r.common, nc))
                                check_result(r, exp, opd, ctx, "column_stack")
                                unchanged(key, s, "input", opd, ctx, "column_stack", prop="C17")
                                unchanged(okey, other, "input", opd, ctx, "column_stack", prop="C17")
                                if copy:
                                    no_shared_memory(s, r, opd, ctx, "column_stack")
                                    no_shared_memory(other, r, opd, ctx, "column_stack")
                                alias_check([s, other], r, opd, ctx, "column_stack")
                            except Exception as e:  # noqa
                                ctx.v("C06", "column_stack:raised", opd, repr(e))

    if ndim == 2:
        # --- collapsed -------------------------------------------------------------------------------------
        for prec in precedence_lists(cfg["prec_max"]):
            s = fresh()
            p_arg = list(prec)
            opd = {"op": "collapsed", "precedence": list(prec)}
            exp = numpy.array([next((p for p in prec if p in set(int(x) for x in d[r])), prec[-1]) for r in range(nrows)], dtype=numpy.int64)
            try:
                r = s.collapsed(p_arg)
                check_result(r, exp, opd, ctx, "collapsed", chosen_common=True)
                unchanged(key, s, "receiver", opd, ctx, "collapsed", prop="C17")
                if p_arg != list(prec):
                    ctx.v("C17", "collapsed:precedence-modified", opd, "precedence list changed to %r" % (p_arg,))
                alias_check([s], r, opd, ctx, "collapsed")
            except Exception as e:  # noqa
                ctx.v("C06", "collapsed:raised", opd, repr(e))
        _expand_slicing(key, d, fresh, ctx)
    _expand_observe_mutate_observe(key, d, fresh, ctx, R, cols)
    return ctx


def _touch(s, save=True):
    """Call every reading method once (whatever an index memoises is now in place)."""
    for _ in s.slices1d() if len(s.shape) > 1 else ():
        pass
    s.to_array(dtype=int)
    try:
        s.to_array()
    except Exception:  # noqa
        pass
    s.abscissae
    s.sparsity
    s.to_dict(force=True)
    list(s.items(force=True))
    s == s.copy()
    for hc in cells_of(s.shape[1:]):
        s.common_rowids(*hc)
    from catii.ccubes import ccube

    if save and len(s.shape) <= 2 and s.common >= 0 and all(k[0] >= 0 for k in dict.keys(s)):
        import tempfile

        from catii.indxio import IndxIO as _io

        with tempfile.TemporaryFile(dir=core.scratch_dir()) as f:
            _io.save(f, s, s.common, s.rowid_dtype)

    if all(k[0] >= 0 for k in dict.keys(s)) and s.common >= 0:
        cube = ccube([s], interacting_shape=(4,))
        cube.count()
        ccube([s]).count()
        return cube
    return None


def _reobserve(s, exp, opd, ctx, opname, old_cube=None, save=True):
    """After an in-place change of an index whose readers had all been used before: every reader must show the NEW content."""
    shape = tuple(s.shape)
    P = "C17" if ctx.focus == "C17" else "C06"     # stale state between calls is a purity finding when C17 is being decided
    if old_cube is not None and exp.size and all(0 <= int(v) < 4 for v in exp.flat) and 0 <= s.common < 4:
        # the cube object built BEFORE the change holds the index, not a copy of it: asked again it must count the new content
        got = numpy.asarray(old_cube.count(return_missing_as=(0, False))[0])
        want = numpy.stack([(exp == v).sum(axis=0) for v in range(4)], axis=-1) if exp.ndim > 1 else numpy.array([(exp == v).sum() for v in range(4)])
        if got.tolist() != want.tolist():
            ctx.v(P, opname + ":stale:cube-built-before", opd, "the count cube built before the change gives %r afterwards, expected %r" % (got.tolist(), want.tolist()))
    if s.to_array(dtype=int).tolist() != exp.tolist():
        ctx.v(P, opname + ":stale:to_array", opd, "to_array after the change = %r, expected %r" % (s.to_array(dtype=int).tolist(), exp.tolist()))
    try:
        plain = s.to_array().tolist()      # the default conversion (library-chosen dtype) is a reader of its own
    except Exception as e:  # noqa
        plain = repr(e)
    if plain != exp.tolist():
        ctx.v(P, opname + ":stale:to_array", opd, "to_array() with the default dtype after the change = %r, expected %r" % (plain, exp.tolist()))
    if len(shape) > 1:
        for coords, sl in s.slices1d():
            got = M.read_dense(sl).tolist()
            want = exp[(slice(None),) + tuple(coords)].tolist()
            if got != want:
                ctx.v(P, opname + ":stale:slices1d", opd, "slice %r after the change = %r (common %r), expected %r" % (tuple(coords), got, sl.common, want))
    for hc in cells_of(shape[1:]):
        cr = s.common_rowids(*hc).tolist()
        want = [r for r in range(shape[0]) if exp[(r,) + hc] == s.common]
        if cr != want:
            ctx.v(P, opname + ":stale:common_rowids", opd, "common_rowids%r after the change = %r, expected %r" % (hc, cr, want))
    present = set(int(x) for x in exp.flat)
    if exp.size and all(v >= 0 for v in present | {s.common}):
        from catii.ccubes import ccube as _cc

        got_shape = tuple(int(x) for x in _cc([s]).interacting_shape)
        if got_shape != (max(present | {s.common}) + 1,):
            ctx.v(P, opname + ":stale:inferred-cube-shape", opd, "a cube built over the changed index infers shape %r, expected %r" % (got_shape, (max(present | {s.common}) + 1,)))
        if save and len(shape) <= 2:
            from catii.indxio import IndxIO as _io

            ctx.seq = getattr(ctx, "seq", 0) + 1
            path = os.path.join(core.scratch_dir(), "hr-%d-%d.indx" % (os.getpid(), ctx.seq))
            with open(path, "wb") as f:
                _io.save(f, s, s.common, s.rowid_dtype)
            with open(path, "rb") as f:
                ents, cm, dt = _io.load(f)
                ents = {k2: numpy.array(v2, copy=True) for k2, v2 in ents.items()}
            os.unlink(path)
            back = type(s)(ents, cm, shape)
            if M.read_dense(back).tolist() != exp.tolist():
                ctx.v(P, opname + ":stale:indx-save", opd, "saving the changed index and loading it back gives %r, expected %r" % (M.read_dense(back).tolist(), exp.tolist()))
    try:
        twin = M.build_index(exp, int(s.common))
        if not (s == twin) or (s != twin) or not (twin == s):
            ctx.v(P, opname + ":stale:equality", opd, "after the change the index does not compare equal to an index built from its new content (== %r, != %r, reversed == %r)" % (s == twin, s != twin, twin == s))
    except Exception as e:  # noqa
        ctx.v(P, opname + ":stale:equality", opd, "comparing the changed index raised %r" % (e,))
    if set(s.abscissae) != present:
        ctx.v(P, opname + ":stale:abscissae", opd, "abscissae after the change %r, values present %r" % (sorted(s.abscissae), sorted(present)))
    if exp.size and abs(s.sparsity - 100.0 * int((exp == s.common).sum()) / exp.size) > 1e-9:
        ctx.v(P, opname + ":stale:sparsity", opd, "sparsity after the change %r" % (s.sparsity,))
    if all(v >= 0 for v in present | {s.common}) and exp.size:
        from catii.ccubes import ccube

        E = max(present | {s.common}) + 1
        got = ccube([s], interacting_shape=(E,)).count(return_missing_as=(0, False))[0]
        want = numpy.stack([(exp == v).sum(axis=0) for v in range(E)], axis=-1) if exp.ndim > 1 else numpy.array([(exp == v).sum() for v in range(E)])
        if numpy.asarray(got).tolist() != want.tolist():
            ctx.v(P, opname + ":stale:count-cube", opd, "count cube over the changed index = %r, expected %r" % (numpy.asarray(got).tolist(), want.tolist()))


def _expand_observe_mutate_observe(key, d, fresh, ctx, R, cols):
    """read everything -> change in place -> read everything again, on ONE object (stale memoised slices, cached counts ...)."""
    shape, common, _ = key
    nrows = shape[0]

    from catii.indxio import IndxIO
    from catii.iindexes import iindex

    present = set(int(x) for x in d.flat)
    layouts = ["built", "strided-entries", "read-only-entries"]
    if common >= 0 and all(v >= 0 for v in present) and len(shape) <= 2:
        layouts.append("loaded-from-indx")

    def make(layout):
        """The same index with its row-id arrays held differently: as built; as non-contiguous views; read-only; as the (read-only, file-backed)
        views IndxIO.load hands out - what an index is made of in a save -> load -> change pipeline."""
        s = fresh()
        if layout == "built":
            return s
        if layout == "loaded-from-indx":
            ctx.seq = getattr(ctx, "seq", 0) + 1
            path = os.path.join(core.scratch_dir(), "hl-%d-%d.indx" % (os.getpid(), ctx.seq))
            with open(path, "wb") as f:
                IndxIO.save(f, s, s.common, s.rowid_dtype)
            with open(path, "rb") as f:
                ents, cm, dt = IndxIO.load(f)
            os.unlink(path)      # the mapping keeps the data alive; one file per object (the row ids are views of it)
            return iindex(ents, cm, tuple(shape))
        for k2 in list(dict.keys(s)):
            a = dict.__getitem__(s, k2)
            if layout == "strided-entries":
                big = numpy.zeros(2 * len(a) + 1, dtype=U32)
                big[::2][:len(a)] = a
                dict.__setitem__(s, k2, big[::2][:len(a)])
            else:
                a = a.copy()
                a.flags.writeable = False
                dict.__setitem__(s, k2, a)
        return s

    def run(opd, opname, mutate, exp):
        for layout in layouts:
            od = opd if layout == "built" else dict(opd, layout=layout)
            try:
                s = make(layout)
                old_cube = _touch(s, save=layout == "built")
                mutate(s)
                if ctx.focus in (None, "C07", "C15"):
                    wellformed(s, exp, od, ctx, opname)
                if ctx.focus in (None, "C06", "C17"):
                    _reobserve(s, exp, od, ctx, opname, old_cube if exp.shape[0] == d.shape[0] else None, save=layout == "built")
            except Exception as e:  # noqa
                ctx.v("C17" if ctx.focus == "C17" else "C06", opname + ":stale:raised", od, repr(e))
            ctx.ntrans += 1

    for v in (None,) + COMMONS:
        run({"op": "shift_common", "to": v, "after_reading": True}, "shift_common", (lambda s, v=v: s.shift_common(v) if v is not None else s.shift_common()), d)
    for k in range(1, R - nrows + 1):
        for o in operand_arrays(k, cols):
            for oc in COMMONS[:2]:
                if d.ndim != o.ndim:
                    continue
                run({"op": "append", "other": o.tolist(), "other_common": oc, "after_reading": True}, "append", (lambda s, o=o, oc=oc: s.append(M.build_index(o, oc))), numpy.concatenate([d, o]))
    for cell in cells_of(shape):
        for v in sorted(set(VALS[:2]) | {common}):
            exp = d.copy()
            exp[cell] = v
            ent = {(v,) + tuple(cell[1:]): numpy.array([cell[0]], dtype=U32)}
            run({"op": "update", "assign": [[list(cell), v]], "after_reading": True}, "update", (lambda s, ent=ent: s.update(ent)), exp)
    # a count-preserving swap inside one column: one row leaves the common value while another returns to it
    for hc in cells_of(shape[1:]):
        col = d[(slice(None),) + hc]
        ins = [r for r in range(nrows) if col[r] == common]
        outs = [r for r in range(nrows) if col[r] != common]
        for r1 in ins[:2]:
            for r2 in outs[:2]:
                v = int(col[r2])
                exp = d.copy()
                exp[(r1,) + hc] = v
                exp[(r2,) + hc] = common
                ent = {(common,) + hc: numpy.array([r2], dtype=U32), (v,) + hc: numpy.array([r1], dtype=U32)}
                third = next(x for x in COMMONS if x not in (common, v))
                for then in (None, v, third):
                    def mut(s, ent=ent, then=then):
                        s.update(ent)
                        if then is not None:
                            s.shift_common(then)
                    run({"op": "update-swap", "column": list(hc), "to_value": r1, "to_common": r2, "then_shift_common": then, "after_reading": True}, "update", mut, exp)
    # entry-wise set algebra after reading: a whole entry removed / its first row removed / rows holding the common value given a value
    for hc in cells_of(shape[1:]):
        col = d[(slice(None),) + hc]
        for v in sorted(set(int(x) for x in col.flat) - {common}):
            rows = [r for r in range(nrows) if col[r] == v]
            for sub in ([rows] if len(rows) == 1 else [rows, rows[:1]]):
                exp = d.copy()
                exp[(sub,) + hc] = common
                ent = {(v,) + hc: numpy.array(sub, dtype=U32)}
                run({"op": "difference_update", "entry": [v] + list(hc), "rows": sub, "after_reading": True}, "difference_update", (lambda s, ent=ent: s.difference_update(ent)), exp)
        crow = [r for r in range(nrows) if col[r] == common]
        if crow:
            for v in (1, 2):
                if v == common:
                    continue
                exp = d.copy()
                exp[(crow[:1],) + hc] = v
                ent = {(v,) + hc: numpy.array(crow[:1], dtype=U32)}
                run({"op": "union_update", "entry": [v] + list(hc), "rows": crow[:1], "after_reading": True}, "union_update", (lambda s, ent=ent: s.union_update(ent)), exp)


def _expand_slicing(key, d, fresh, ctx):
    shape = key[0]
    ndim = len(shape)
    # per higher axis: None | int | order list (all repetition-free non-empty sublists in every order)
    per_axis = []
    for ax in range(1, ndim):
        n = shape[ax]
        opts = [None] + list(range(n))
        for k in range(1, n + 1):
            opts.extend(list(p) for p in itertools.permutations(range(n), k))
        per_axis.append(opts)
    # one argument per higher axis ("int | order list | None per axis"): a call naming fewer axes than the index has is outside the statement
    for nargs in (ndim - 1,):
        for orders in itertools.product(*per_axis[:nargs]):
            s = fresh()
            args = [list(o) if isinstance(o, list) else o for o in orders]
            snap = [list(o) if isinstance(o, list) else o for o in orders]
            opd = {"op": "sliced", "orders": snap}
            sl = [slice(None)]
            for o in orders:
                sl.append(slice(None) if o is None else o)
            exp = d
            # apply axis by axis from the last so that integer indexing does not shift positions
            for ax in range(nargs, 0, -1):
                o = orders[ax - 1]
                if o is None:
                    continue
                exp = numpy.take(exp, o, axis=ax)
            try:
                r = s.sliced(*args)
                check_result(r, exp, opd, ctx, "sliced")
                unchanged(key, s, "receiver", opd, ctx, "sliced", prop="C17")
                if args != snap:
                    ctx.v("C17", "sliced:order-modified", opd, "order lists changed to %r" % (args,))
                alias_check([s], r, opd, ctx, "sliced")
            except Exception as e:  # noqa
                ctx.v("C06", "sliced:raised", opd, repr(e))
    # slices1d: exactly one slice per combination of higher coordinates, each equal to dense[:, c, d...]
    s = fresh()
    opd = {"op": "slices1d"}
    try:
        seen = {}
        for coords, sl in s.slices1d():
            coords = tuple(coords)
            if coords in seen:
                ctx.v("C06", "slices1d:duplicate", opd, "coordinates %r yielded twice" % (coords,))
            seen[coords] = sl
        want = set(itertools.product(*[range(n) for n in shape[1:]]))
        if set(seen) != want:
            ctx.v("C06", "slices1d:coordinates", opd, "yielded %r, expected %r" % (sorted(seen), sorted(want)))
        for coords, sl in seen.items():
            if coords in want:
                check_result(sl, d[(slice(None),) + coords], dict(opd, coords=list(coords)), ctx, "slices1d")
        unchanged(key, s, "receiver", opd, ctx, "slices1d", prop="C17")
        for coords, sl in seen.items():
            alias_check([s], sl, dict(opd, coords=list(coords)), ctx, "slices1d")
    except Exception as e:  # noqa
        ctx.v("C06", "slices1d:raised", opd, repr(e))


def _expand_set_updates(key, d, fresh, ctx):
    shape, common, ents = key
    ndim = len(shape)
    nrows = shape[0]
    listed = {c: numpy.frombuffer(b, dtype=numpy.dtype(ds)).tolist() for c, b, ds in ents}
    hcs = cells_of(shape[1:])

    def model_entries(res):
        """dense from an entries dict {coords: rows} over the old common."""
        out = numpy.full(shape, common, dtype=numpy.int64)
        for c, rows in res.items():
            for r in rows:
                out[(r,) + tuple(c[1:])] = c[0]
        return out

    def run(opname, other, expect_entries):
        s = fresh()
        arg = {c: (None if rows is None else numpy.array(rows, dtype=U32)) for c, rows in other.items()}
        snap = {c: (None if a is None else a.copy()) for c, a in arg.items()}
        opd = {"op": opname, "other": {str(c): rows for c, rows in other.items()}}
        try:
            getattr(s, opname)(arg)
            exp = model_entries(expect_entries)
            k = check_result(s, exp, opd, ctx, opname)
            if k is not None:
                got = {c: a.tolist() for c, a in dict.items(s)}
                if got != {c: r for c, r in expect_entries.items() if r}:
                    ctx.v("C06", "%s:entries" % opname, opd, "entries %r, entry-wise set algebra gives %r" % (got, expect_entries))
            for c in snap:
                if (snap[c] is None) != (arg[c] is None) or (snap[c] is not None and not numpy.array_equal(snap[c], arg[c])):
                    ctx.v("C06", "%s:operand-modified" % opname, opd, "operand entry %r changed" % (c,))
            # the receiver must not alias the operand's arrays after a union (copy_right=True in the code)
            for c, a in dict.items(s):
                for c2, b in arg.items():
                    if b is not None and a.size and b.size and numpy.shares_memory(a, b):
                        ctx.v("C06", "%s:aliases-operand" % opname, opd, "receiver entry %r shares memory with operand entry %r" % (c, c2))
        except Exception as e:  # noqa
            ctx.v("C06", "%s:raised" % opname, opd, repr(e))

    # union: add rows that currently hold the common value in that column, under a value != common
    for hc in hcs:
        free = [r for r in range(nrows) if d[(r,) + hc] == common]
        for k in (1, 2):
            for rows in itertools.combinations(free, k):
                for v in VALS:
                    if v == common:
                        continue
                    exp = {c: list(r) for c, r in listed.items()}
                    exp[(v,) + hc] = sorted(set(exp.get((v,) + hc, [])) | set(rows))
                    run("union_update", {(v,) + hc: list(rows)}, exp)
    # union with rows already present under the same key (idempotent), and with a None entry
    for c, rows in list(listed.items())[:2]:
        run("union_update", {c: rows[:1]}, {cc: list(r) for cc, r in listed.items()})
    run("union_update", {((0 if common != 0 else 1),) + (hcs[0] if hcs else ()): None}, {cc: list(r) for cc, r in listed.items()})
    # intersection: operand = own entries with one row dropped / one key only / empty / a foreign key
    cands = [{}]
    for c, rows in listed.items():
        cands.append({c: rows})
        for i in range(len(rows)):
            o = {cc: list(r) for cc, r in listed.items()}
            o[c] = rows[:i] + rows[i + 1:]
            cands.append(o)
        if rows:
            o = {cc: list(r) for cc, r in listed.items()}
            o[c] = sorted(set(rows) | {(rows[-1] + 1) % max(nrows, 1)})
            cands.append(o)
    for other in cands:
        exp = {}
        for c, rows in listed.items():
            if c in other and other[c] is not None:
                exp[c] = sorted(set(rows) & set(other[c]))
        run("intersection_update", other, exp)
    # difference: single key with 1..2 rows (present or not), listed key or foreign key
    keys = list(listed) + [((v,) + hc) for hc in hcs[:1] for v in VALS if v != common and (v,) + hc not in listed][:1]
    for c in keys:
        for k in (1, 2):
            for rows in itertools.combinations(range(nrows), k):
                exp = {cc: list(r) for cc, r in listed.items()}
                if c in exp:
                    exp[c] = sorted(set(exp[c]) - set(rows))
                run("difference_update", {c: list(rows)}, exp)


# ----------------------------------------------------------------------------- search

def initial_keys(cfg):
    R, C = cfg["R"], cfg["C"]
    keys = []
    if cfg.get("RC"):
        shapes = [(n,) for n in range(0, cfg["RC"][None] + 1)] + [(n, c) for c in range(1, C + 1) for n in range(0, cfg["RC"].get(c, 0) + 1)]
    else:
        shapes = [(n,) for n in range(0, max(R, cfg.get("R1", 0)) + 1)] + [(n, c) for c in range(1, C + 1) for n in range(0, R + 1)]
    for sh in shapes:
        for a in M.all_arrays(sh, VALS):
            for c in COMMONS:
                keys.append(key_from_dense(a, c))
    # 3-D initial states for sliced / slices1d
    for n in range(0, cfg["R3"] + 1):
        for sh in ((n, 2, 2), (n, 1, 2)):
            for a in M.all_arrays(sh, VALS[:2]):
                for c in (0, 2):
                    keys.append(key_from_dense(a, c))
    return keys


_CFG = None
_REV = False
_PRUNE = None
_FOCUS = None


def _w_expand(key):
    # a note for the parent: which state this process is expanding (a kernel that kills the interpreter would otherwise stall the pool for ever)
    mk = os.path.join(core.scratch_dir(), "hrunning-%d" % os.getpid())
    try:
        with open(mk, "w") as f:
            f.write(repr(key))
    except OSError:
        mk = None
    try:
        return _w_expand_inner(key)
    finally:
        if mk:
            try:
                os.remove(mk)
            except OSError:
                pass


def _dead_expansions():
    out = []
    try:
        names = os.listdir(core.scratch_dir())
    except OSError:
        return out
    for n in names:
        if not n.startswith("hrunning-"):
            continue
        pid = int(n.split("-")[1])
        try:
            os.kill(pid, 0)
            alive = open("/proc/%d/stat" % pid).read().split(")")[-1].split()[0] != "Z"
        except (OSError, IndexError):
            alive = False
        if not alive:
            try:
                out.append(open(os.path.join(core.scratch_dir(), n)).read())
                os.remove(os.path.join(core.scratch_dir(), n))
            except OSError:
                pass
    return out


def _w_expand_inner(key):
    try:
        ctx = expand(key, _CFG, prune=_PRUNE, focus=_FOCUS)
        res = [(key, ctx.viol, ctx.ntrans, ctx.succ, ctx.stats, ctx.dense_outcomes)]
        if _REV:
            ctx2 = expand(key, _CFG, reverse=True, prune=_PRUNE, focus=_FOCUS)
            s1 = sorted((k, repr(o)) for k, o in ctx.succ)
            s2 = sorted((k, repr(o)) for k, o in ctx2.succ)
            if s1 != s2 or len(ctx2.viol) != len(ctx.viol):
                ctx.viol.append(("C06", "order-dependence", {"op": "insertion-order"}, "successors differ when entries are inserted in reverse order: %d vs %d successors" % (len(s1), len(s2))))
            res[0] = (key, ctx.viol, ctx.ntrans + ctx2.ntrans, ctx.succ, ctx.stats, ctx.dense_outcomes)
        return res[0]
    except Exception:
        import traceback

        return (key, "ERROR: " + traceback.format_exc(), 0, [], {}, set())


def search(tier, nproc=None, prop=None, max_seconds=None, max_states=200000):
    """BFS to fixpoint. Returns dict with states, transitions, depth, violations (with paths), ...

    prop: the property being decided. Targets of transitions violating it are not expanded, and the search stops after the
    first BFS level on which it is violated (shortest counterexample). Violations of other properties are counted, and their
    targets are still expanded when they can be modelled."""
    global _CFG, _REV, _PRUNE, _FOCUS
    cfg = BOUNDS[tier]
    _CFG = cfg
    _FOCUS = prop
    _PRUNE = {prop} if prop else None
    if prop == "C15":
        _PRUNE = {"C15", "C07"}  # equality is only claimed between well-formed indexes
    _REV = bool(cfg.get("two_orders")) and prop in (None, "C06")  # insertion-order independence is reported under C06
    t0 = time.time()
    init = initial_keys(cfg)
    parent = {}
    for k in init:
        parent.setdefault(k, None)
    frontier = list(dict.fromkeys(init))
    depth = 0
    transitions = 0
    violations = []
    dense_outcomes = set()
    stats = {}
    pruned = 0
    nproc = nproc or core.NPROC
    pool = multiprocessing.get_context("fork").Pool(nproc)
    capped = False
    try:
        while frontier:
            nxt = []
            bad_targets = 0
            it = pool.imap(_w_expand, frontier, chunksize=1)   # (an IMapIterator with next(timeout); chunked imap returns a plain generator)
            ngot = 0
            crashed = None
            while ngot < len(frontier):
                try:
                    key, viol, ntrans, succ, st, dout = it.next(timeout=5)
                except multiprocessing.TimeoutError:
                    dead = _dead_expansions()
                    if dead:
                        crashed = dead[0]
                        break
                    continue
                ngot += 1
                if isinstance(viol, str):
                    return {"error": viol}
                transitions += ntrans
                dense_outcomes |= dout
                for k2, v2 in st.items():
                    stats[k2] = stats.get(k2, 0) + v2
                for vprop, site, opd, detail in viol:
                    violations.append({"property": vprop, "site": site, "op": opd, "detail": detail, "state": key, "depth": depth})
                    pruned += 1
                for k2, opd in succ:
                    if k2 not in parent:
                        parent[k2] = (key, opd)
                        nxt.append(k2)
            if crashed is not None:
                by_repr = {repr(k): k for k in frontier}
                ck = by_repr.get(crashed, frontier[0])
                violations.append({"property": prop or "C06", "site": "crash", "op": {"op": "crash"}, "state": ck, "depth": depth,
                                   "detail": "the process expanding this state was killed (a fatal signal inside the library): no Python exception, the interpreter died"})
                capped = True
                break
            depth += 1 if nxt else 0
            frontier = nxt
            if prop and any(v["property"] == prop for v in violations):
                capped = bool(frontier)
                break
            if (max_seconds and time.time() - t0 > max_seconds) or len(parent) > max_states:
                capped = bool(frontier)
                break
    finally:
        pool.terminate()
        pool.join()
    return {
        "states": len(parent), "transitions": transitions, "max_depth": depth, "violations": violations, "dense_outcomes": len(dense_outcomes),
        "parent": parent, "initial": len(set(init)), "capped": capped, "frontier_left": len(frontier), "pruned": pruned, "wall": time.time() - t0, "cfg": cfg, "stats": stats,
    }


def path_to(parent, key):
    ops = []
    k = key
    while parent.get(k) is not None:
        pk, opd = parent[k]
        ops.append(opd)
        k = pk
    return k, ops[::-1]


# ----------------------------------------------------------------------------- equality over pairs of states (C15b)

def pair_checks(keys, tier):
    """a == b iff (shape, common, dense) coincide, over neighbour pairs of reached states; reflexive/symmetric; non-index."""
    viol = []
    npairs = 0
    objs = {}
    by_shape = {}
    for k in keys:
        by_shape.setdefault(k[0], []).append(k)
    full_limit = 400 if tier == "quick" else 1200
    for sh, ks in by_shape.items():
        ks = sorted(ks, key=repr)
        triple = {}
        for k in ks:
            try:
                triple[k] = (k[0], k[1], dense_of(k).tobytes())
            except M.ModelError:
                continue
        ks = [k for k in ks if k in triple]
        if len(ks) <= full_limit:
            pairs = itertools.combinations_with_replacement(ks, 2)
        else:
            # neighbours: same dense (any common), same common and dense differing in <= 1 cell, plus reflexive
            idx = {}
            for k in ks:
                idx.setdefault(("d", triple[k][2]), []).append(k)
            pl = []
            for k in ks:
                pl.append((k, k))
                for k2 in idx[("d", triple[k][2])]:
                    if repr(k) < repr(k2):
                        pl.append((k, k2))
            bycommon = {}
            for k in ks:
                bycommon.setdefault(k[1], []).append(k)
            for c, kk in bycommon.items():
                arrs = {k: numpy.frombuffer(triple[k][2], dtype=numpy.int64) for k in kk}
                for a, b in itertools.combinations(kk, 2):
                    if int((arrs[a] != arrs[b]).sum()) <= 1:
                        pl.append((a, b))
            pairs = pl
        for a, b in pairs:
            npairs += 1
            oa, ob = build(a), build(b, reverse=True)
            want = triple[a] == triple[b]
            try:
                e1, e2 = oa == ob, ob == oa
                n1 = oa != ob
            except Exception as ex:  # noqa
                viol.append({"property": "C15", "site": "pairs:raised", "op": {"op": "compare"}, "detail": "comparison raised %r for %r vs %r" % (ex, describe_key(a), describe_key(b)), "state": a, "other": b})
                continue
            if e1 is not want or e2 is not want:
                viol.append({"property": "C15", "site": "pairs:eq-wrong", "op": {"op": "compare"}, "detail": "== gives %r/%r, expected %r: %r vs %r" % (e1, e2, want, describe_key(a), describe_key(b)), "state": a, "other": b})
            if n1 is not (not want):
                viol.append({"property": "C15", "site": "pairs:ne-wrong", "op": {"op": "compare"}, "detail": "!= gives %r, expected %r" % (n1, not want), "state": a, "other": b})
    # single-component variants of EVERY state: same entries with one more row / one more trailing column / another common value
    for k in sorted(keys, key=repr):
        shape, common, ents = k
        listed = {c[0] for c, b, ds in ents}
        variants = [((shape[0] + 1,) + tuple(shape[1:]), common, ents)]
        if len(shape) >= 2:
            variants.append((tuple(shape[:-1]) + (shape[-1] + 1,), common, ents))
        other_common = next(v for v in (7, 8, 9) if v not in listed and v != common)
        variants.append((shape, other_common, ents))
        oa = build(k)
        for vk in variants:
            npairs += 1
            try:
                ob = build(vk)
                e1, e2, n1 = oa == ob, ob == oa, oa != ob
            except Exception as ex:  # noqa
                viol.append({"property": "C15", "site": "pairs:raised", "op": {"op": "compare"}, "detail": "comparison raised %r" % (ex,), "state": k, "other": vk})
                continue
            if e1 is not False or e2 is not False or n1 is not True:
                viol.append({"property": "C15", "site": "pairs:eq-wrong", "op": {"op": "compare"}, "detail": "indexes differing only in shape or common value compare ==: %r / %r, != gives %r: %r vs %r" % (e1, e2, n1, describe_key(k), describe_key(vk)), "state": k, "other": vk})
    # cross-shape and non-index comparisons
    some = sorted(keys, key=repr)[:: max(1, len(keys) // 200)]
    for a in sorted(keys, key=repr):
        oa = build(a)
        # non-index operands, incl. plain dicts with the very same keys (an index IS a dict subclass)
        for other in (5, None, "x", {}, [], (1,), numpy.zeros(2), dict(dict.items(oa)), {k2: v2.tolist() for k2, v2 in dict.items(oa)}):
            npairs += 1
            try:
                e = oa == other
                n = oa != other
            except Exception as ex:  # noqa
                viol.append({"property": "C15", "site": "pairs:non-index-raised", "op": {"op": "compare"}, "detail": "comparison with %r raised %r" % (other, ex), "state": a})
                continue
            if e is not False or n is not True:
                viol.append({"property": "C15", "site": "pairs:non-index", "op": {"op": "compare"}, "detail": "index == %r gives %r, != gives %r" % (other, e, n), "state": a})
        for b in (some[:20] if a in some else ()):
            if a[0] != b[0]:
                npairs += 1
                try:
                    if (oa == build(b)) is not False or (oa != build(b)) is not True:
                        viol.append({"property": "C15", "site": "pairs:eq-wrong", "op": {"op": "compare"}, "detail": "indexes of different shape compare equal", "state": a, "other": b})
                except Exception as ex:  # noqa
                    viol.append({"property": "C15", "site": "pairs:raised", "op": {"op": "compare"}, "detail": "comparison raised %r" % (ex,), "state": a, "other": b})
    return viol, npairs
