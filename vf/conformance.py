"""Bind ModelPool to the real multiprocessing.pool.ThreadPool: enumerate ALL schedules of the model for
small recording task sets and run the real pool free on the same sets; every real outcome must be one of
the model's, and the deterministic facts (which tasks run, chunking) must match exactly."""
import multiprocessing.pool
from contextlib import closing

from . import sched

REAL_POOL = multiprocessing.pool.ThreadPool  # captured at import, before sched.patch_pools()
if REAL_POOL is sched.ModelPool:  # pragma: no cover
    raise RuntimeError("conformance must be imported before the pools are patched")


class Boom(Exception):
    pass


class Halt(StopIteration):
    """A task failing with a StopIteration: the stdlib's list(map(func, chunk)) takes it for the end of the chunk."""


def task_sets(tier):
    """(n tasks, workers, raising positions). Kept small: the number of model schedules grows factorially with
    the number of free switch points (chunks x interchangeable workers)."""
    combos = [(0, 1), (0, 2), (1, 1), (1, 2), (2, 4), (3, 1), (3, 2), (3, 3), (3, 16), (5, 1), (5, 2), (9, 1), (9, 2)]
    if tier == "thorough":
        combos += [(2, 2), (4, 2), (4, 3), (4, 4), (5, 3), (6, 1), (6, 2), (13, 1), (17, 2), (4, 16)]
    for n, w in combos:
        raising = [()] + [(i,) for i in range(n)]
        if n >= 2:
            raising += [(0, n - 1), (0, 1)]
        if n >= 3:
            raising += [tuple(range(n))]
        for r in raising:
            yield n, w, r
        # the same positions failing with a StopIteration subclass (negative position p stands for "task -p-1 raises Halt")
        for r in ([(-1,)] if n >= 1 else []) + ([(-n,), (-1, -n)] if n >= 2 else []) + ([(0, -2)] if n >= 2 else []):
            yield n, w, r


def _run(pool_factory, n, w, raising, in_model=False):
    ran = []
    excs = {(i if i >= 0 else -i - 1): (Boom(i) if i >= 0 else Halt(i)) for i in raising}

    def f(i):
        ran.append(i)
        if in_model:
            sched.yield_point()   # a real thread can be descheduled before it finishes (and records its result)
        if i in excs:
            raise excs[i]
        return i * 10

    def body():
        with closing(pool_factory(w)) as pool:
            return pool.map(f, range(n))

    return body, ran, excs


def outcome(kind, val, excs):
    if kind == "ok":
        return ("ok", tuple(val))
    for i, e in excs.items():
        if val is e:
            return ("exc", i)
    return ("other", repr(val))


def check(tier, reps=None):
    """Returns dict(real_runs, model_schedules, configs, mismatches[list])."""
    reps = reps or (3 if tier == "quick" else 12)
    res = {"configs": 0, "real_runs": 0, "model_schedules": 0, "mismatches": closed_pool_check()}
    for n, w, raising in task_sets(tier):
        res["configs"] += 1
        # model: all schedules (free switch points only: these tasks contain no monitored code)
        model_outcomes = set()
        model_ran = set()
        stats = {}
        holder = {}

        def mbody():
            body, ran, excs = _run(sched.ModelPool, n, w, raising, in_model=True)
            holder["ran"], holder["excs"] = ran, excs
            return body()

        def mcheck(s, out):
            model_outcomes.add(outcome(out[0], out[1], holder["excs"]))
            model_ran.add(tuple(sorted(holder["ran"])))
            return None

        sched.explore(mbody, mcheck, bound=max(0, min(n, w, 4) - 1), stats=stats, limit=20000)
        if stats.get("capped"):
            res.setdefault("capped", []).append((n, w, raising))
        res["model_schedules"] += stats.get("executions", 0)
        if len(model_ran) != 1:
            res["mismatches"].append("model: the set of executed tasks depends on the schedule for n=%d w=%d raising=%r: %r" % (n, w, raising, model_ran))
            continue
        for _ in range(reps):
            body, ran, excs = _run(REAL_POOL, n, w, raising)
            try:
                o = ("ok", body())
            except Exception as e:  # noqa
                o = ("exc", e)
            ro = outcome(o[0], o[1], excs)
            res["real_runs"] += 1
            if ro not in model_outcomes:
                res["mismatches"].append("real pool outcome %r not among the model's %r for n=%d w=%d raising=%r" % (ro, sorted(model_outcomes), n, w, raising))
            if tuple(sorted(ran)) not in model_ran:
                res["mismatches"].append("real pool executed tasks %r, model %r for n=%d w=%d raising=%r" % (sorted(ran), sorted(model_ran), n, w, raising))
    return res


def closed_pool_check():
    """Both pools refuse map() after close()."""
    out = []
    for name, factory in (("real", REAL_POOL), ("model", sched.ModelPool)):
        p = factory(2)
        p.close()
        try:
            if name == "model":
                s, o = sched.execute(lambda: p.map(abs, [1, 2]))
                if o[0] == "exc":
                    raise o[1]
            else:
                p.map(abs, [1, 2])
            out.append("%s pool accepted map() after close()" % name)
        except ValueError:
            pass
        except Exception as e:  # noqa
            out.append("%s pool raised %r after close()" % (name, e))
        finally:
            try:
                p.terminate()
            except Exception:
                pass
    return out


def check_in_child(tier):
    """Run check() in a forked child so that the real pool's helper threads never exist in the process that forks the explorers."""
    import multiprocessing

    pool = multiprocessing.get_context("fork").Pool(1)
    try:
        return pool.apply(check, (tier,))
    finally:
        pool.terminate()
        pool.join()
