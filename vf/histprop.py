"""Common driver for the properties decided on the `hist` state graph (C06, C07, C15; C17 uses it too)."""
import json
import time

from . import core, hist


def run(mod, tier, all_violations=False, t0=None, extra=None):
    t0 = t0 or time.time()
    res = hist.search(tier, prop=mod.ID)
    if "error" in res:
        print("INFRASTRUCTURE: %s" % res["error"])
        return 2
    mine = [v for v in res["violations"] if v["property"] == mod.ID]
    others = len(res["violations"]) - len(mine)
    extra_cov = {}
    if getattr(mod, "PAIRS", False) and not mine:
        pv, npairs = hist.pair_checks(list(res["parent"].keys()), tier)
        mine.extend(pv)
        extra_cov["equality_pairs_compared"] = npairs
    if extra:
        parts = extra(res, tier)
        if isinstance(parts, list):
            # independent families: run them side by side in forked children
            import multiprocessing

            global _PARTS
            _PARTS = parts      # inherited by the forked children (closures do not pickle)
            pool = multiprocessing.get_context("fork").Pool(min(len(parts), core.NPROC))
            try:
                outs = pool.map(_run_part, [(i, tier) for i in range(len(parts))])
            finally:
                pool.terminate()
                pool.join()
            for out in outs:
                if "error" in out:
                    print("INFRASTRUCTURE: %s" % out["error"])
                    return 2
                mine.extend(out["viol"])
                extra_cov.update(out["cov"])
        else:
            ev, ec = parts
            mine.extend(ev)
            extra_cov.update(ec)
    known = [k for k in core.load_known() if k.get("property") == mod.ID and k.get("status") == "known"]
    hits = {}
    unmatched = []
    for v in mine:
        m = None
        for k in known:
            if k.get("site") == v["site"] and all(v["op"].get(a) == b for a, b in k.get("match", {}).items()):
                m = k
                break
        if m:
            hits[m["id"]] = hits.get(m["id"], 0) + 1
        else:
            unmatched.append(v)
    for k in known:
        print("KNOWN-FINDING: property=%s %s (site=%s, hits this run=%d)" % (mod.ID, k.get("what", ""), k.get("site"), hits.get(k["id"], 0)))
    if all_violations and unmatched:
        groups = {}
        for v in unmatched:
            groups.setdefault(v["site"], []).append(v)
        for sname, vs in sorted(groups.items()):
            print("GROUP site=%s n=%d first_state=%s op=%s :: %s" % (sname, len(vs), json.dumps(hist.describe_key(vs[0]["state"])), json.dumps(vs[0]["op"]), vs[0]["detail"][:400]))
    code = 0
    if unmatched:
        # shortest history first (BFS depth), then stable order
        unmatched.sort(key=lambda v: (v.get("depth", 0), repr(v["state"]), repr(v["op"])))
        v = unmatched[0]
        init, ops = hist.path_to(res["parent"], v["state"])
        rec = {
            "property": mod.ID, "site": v["site"], "detail": v["detail"],
            "case": {"initial": hist.describe_key(init), "history": ops, "state": hist.describe_key(v["state"]), "op": v["op"],
                     "other": hist.describe_key(v["other"]) if v.get("other") else None, "tier": tier},
        }
        path = core.write_replay(mod.ID, rec)
        print("site=%s op=%s" % (v["site"], json.dumps(v["op"])))
        print("state=%s history=%s" % (json.dumps(rec["case"]["state"]), json.dumps(ops)[:600]))
        print("detail=%s" % v["detail"][:700])
        print("VIOLATION property=%s replay=%s" % (mod.ID, path))
        code = 1
    # samples: a few histories (rotated by seed)
    keys = sorted((k for k, p in res["parent"].items() if p is not None), key=repr)
    samples = []
    if keys:
        sd = core.seed()
        for i in range(3):
            k = keys[(sd * 7919 + i * 104729) % len(keys)]
            init, ops = hist.path_to(res["parent"], k)
            samples.append({"initial": hist.describe_key(init), "history": ops, "reached": hist.describe_key(k)})
    desc = mod.describe(tier)
    cov = {
        "states": res["states"], "transitions": res["transitions"], "traces_validated_against_impl": res["transitions"],
        "samples": samples or [{"note": "no non-initial state"}],
        "initial_states": res["initial"], "max_bfs_depth": res["max_depth"], "distinct_dense_outcomes": res["dense_outcomes"],
        "fixpoint_reached": not res["capped"], "exhaustive": not res["capped"], "stopped_after_first_violating_level": bool(unmatched) and res["capped"], "bounds": res["cfg"],
        "rule": desc["rule"], "violating_transitions_not_expanded": res["pruned"], "violations_of_other_properties_on_this_graph": others,
        "known_finding_hits": hits, "search_counters": res.get("stats", {}), "evaluations": res["transitions"], "distinct_nontrivial": res["states"] - res["initial"],
    }
    cov.update(extra_cov)
    wall = time.time() - t0
    core.write_evidence(mod.ID, tier, mod.LEVEL, cov, desc.get("assumptions", []), wall, len(unmatched))
    print("%s tier=%s states=%d (initial %d) transitions=%d depth=%d dense_outcomes=%d violations=%d other_props=%d known_hits=%d wall=%.1fs %s" % (
        mod.ID, tier, res["states"], res["initial"], res["transitions"], res["max_depth"], res["dense_outcomes"], len(unmatched), others, sum(hits.values()), wall,
        " ".join("%s=%s" % kv for kv in sorted(extra_cov.items()))))
    return code


_PARTS = []


def _run_part(args):
    i, tier = args
    fn = _PARTS[i]
    try:
        viol, cov = fn(None, tier)
        return {"viol": viol, "cov": cov}
    except Exception:
        import traceback

        return {"error": traceback.format_exc()}


def replay(case):
    """Re-execute one transition from the recorded state with a plain call of hist.expand (no search)."""
    if case["op"].get("op") == "normalise":
        from .props import c15

        viol, _ = c15.normalisation_family(None, "quick")
        viol = [v for v in viol if v["op"] == case["op"]]
        for v in viol:
            print("  %s :: %s" % (v["site"], v["detail"][:400]))
        return bool(viol)
    if case["op"].get("big"):
        from . import bigops

        ctx = bigops.Ctx()
        {"repr": bigops.repr_family, "collapse-mapping": bigops.collapse_mapping_family, "numpy-length": bigops.numpy_length_family, "reindexed-merge": bigops.reindexed_merge_family, "indx-narrow": bigops.indx_family}.get(case["op"]["big"] if isinstance(case["op"]["big"], str) else "", bigops.big_family)(ctx, case.get("tier", "quick"))
        viol = [v for v in ctx.viol if v["op"] == case["op"]]
        for v in viol:
            print("  [%s] %s :: %s" % (v["property"], v["site"], v["detail"][:400]))
        return bool(viol)
    if case["op"].get("op") == "from_array-scale":
        from .props import c15

        viol, _ = c15.scale_family(None, case.get("tier", "quick"))
        viol = [v for v in viol if v["op"] == case["op"]]
        for v in viol:
            print("  %s :: %s" % (v["site"], v["detail"][:400]))
        return bool(viol)
    if case["op"].get("op") == "from_array" and (case.get("property") == "C07" or "rowscan" in case["op"]):
        from .props import c07

        viol, _ = c07.construction_family(None, case.get("tier", "quick"), part=None if "rowscan" not in case["op"] else None)
        viol = [v for v in viol if v["op"] == case["op"]]
        for v in viol:
            print("  %s :: %s" % (v["site"], v["detail"][:400]))
        return bool(viol)
    if case["op"].get("op") == "from_array":
        from .props import c15

        viol, _ = c15.from_array_family(None, "quick")
        viol = [v for v in viol if v["op"] == case["op"]]
        for v in viol:
            print("  %s :: %s" % (v["site"], v["detail"][:400]))
        return bool(viol)
    key = hist.key_from_description(case["state"])
    cfg = hist.BOUNDS[case.get("tier", "quick")]
    ctx = hist.expand(key, cfg)
    hits = [v for v in ctx.viol if v[2] == case["op"] or case["op"].get("op") == "compare"]
    hits = [v for v in hits if case.get("property") in (None, v[0])] or hits
    if case["op"].get("op") == "compare" and case.get("other"):
        pv, _ = hist.pair_checks([key, hist.key_from_description(case["other"])], "quick")
        for v in pv:
            print("  %s :: %s" % (v["site"], v["detail"][:500]))
        return bool(pv)
    for prop, site, opd, detail in hits:
        print("  [%s] %s %s :: %s" % (prop, site, json.dumps(opd), detail[:500]))
    return bool(hits)
