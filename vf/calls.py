"""Engine `calls`: explicit-state search over histories of aggregate evaluations with full object-state
hashing (C17, aggregate part).

World = a fixed population of cubes, aggregate-function objects and caller-owned arguments, built fresh
from constants for every history.  Event = cube.calculate(ordered selection of function objects) or a
shortcut method call.  After every event: the returned arrays must equal, bit for bit, those of the same
event on a fresh world (single evaluation of each aggregate alone for calculate), and every caller-owned
argument must be byte-identical.  State = hash of the entire reachable object state (every attribute of every
cube and function object, arrays by bytes) excluding the write-only diagnostics.
"""
import hashlib
import itertools

import numpy

from . import harness
from . import models as M

DIAGNOSTICS = {"tracing", "_tracing", "intersection_data_points"}
N = 3


def _no_interrupt():
    return None


def make_world():
    """Fresh objects. Returns dict with cubes, funcs (by cube kind), args (caller-owned arrays), dims.

    Every aggregate class appears in two parameterisations chosen so that a missing copy shows up in the caller's
    buffers: (A) fact = (values, validity) with REAL numbers hidden under False validity + NaN-marked weights that are
    missing on a row whose fact is present; (B) NaN-marked fact + (values, validity) weights hiding 1e300."""
    from catii import ffuncs as F
    from catii import xfuncs as X
    from catii.ccubes import ccube
    from catii.xcubes import xcube

    nan = float("nan")
    args = {
        "fA_vals": numpy.array([1.0, 2.0, 4.0]), "fA_ok": numpy.array([True, False, True]),
        "fB": numpy.array([1.0, nan, 4.0]),
        "fC": numpy.array([7.0, 2.0, 4.0]),
        "f2A_vals": numpy.array([[1.0, 7.0], [2.0, 1.0], [4.0, 11.0]]), "f2A_ok": numpy.array([[True, False], [True, True], [False, True]]),
        "f2B": numpy.array([[1.0, nan], [2.0, 1.0], [nan, 11.0]]),
        "f2C": numpy.array([[1.0, 7.0], [2.0, 1.0], [4.0, 11.0]]),
        "iF_vals": numpy.array([3, -999, 5], dtype=numpy.int64), "iF_ok": numpy.array([True, False, True]),
        "wA": numpy.array([0.5, 1.0, nan]),
        "wB_vals": numpy.array([1.0, 1e300, 2.0]), "wB_ok": numpy.array([True, False, True]),
        "wC": numpy.array([0.5, 1.0, 2.0]),
        "dA0": numpy.array([[0, 1], [1, 1], [0, 0]], dtype=numpy.int64),
        "dA1": numpy.array([0, 1, 1], dtype=numpy.int64),
        "dB0": numpy.array([1, 0, 1], dtype=numpy.int64),
        "dB1": numpy.array([0, 0, 1], dtype=numpy.int64),
        # a cube of each type with a DIFFERENT number of rows, for function objects that do not depend on N
        # an extent-1 dimension (every row in category 0): with it three flat dimensions give the working shape that cA / xA get from a
        # two-column dimension and a flat one - same shape, different split into extra axes and category axes
        "dS0": numpy.array([0, 0, 0], dtype=numpy.int64),
        # the dimensions of xA again, already in the narrowest unsigned dtype the cube works in (nothing to convert: a cube may use them as they are)
        "uA0": numpy.array([[0, 1], [1, 1], [0, 0]], dtype=numpy.uint8),
        "uA1": numpy.array([0, 1, 1], dtype=numpy.uint8),
        "dD0": numpy.array([1, 0, 1, 1, 0], dtype=numpy.int64),
        "dD1": numpy.array([0, 0, 1, 2, 2], dtype=numpy.int64),
    }
    pristine = {"arg:" + k: (a.dtype.str, a.shape, a.tobytes()) for k, a in args.items()}
    fA = (args["fA_vals"], args["fA_ok"])
    f2A = (args["f2A_vals"], args["f2A_ok"])
    iF = (args["iF_vals"], args["iF_ok"])
    wB = (args["wB_vals"], args["wB_ok"])
    idx = {
        "iA0": M.build_index(args["dA0"], 1),
        "iA1": M.build_index(args["dA1"], 0),
        "iB0": M.build_index(args["dB0"], 2),
        "iB1": M.build_index(args["dB1"], 0),
        "iD0": M.build_index(args["dD0"], 1),
        "iD1": M.build_index(args["dD1"], 2),
    }
    # cC / xC: the SAME output shape as cB / xB over different data (other cells are empty): stale result buffers show up
    idx["iS0"] = M.build_index(args["dS0"], 1)
    idx["iC0"] = M.build_index(args["dB1"], 1)
    idx["iC1"] = M.build_index(args["dB0"], 0)
    dims_lists = {"cA": [idx["iA0"], idx["iA1"]], "cB": [idx["iB0"], idx["iB1"]], "xA": [args["dA0"], args["dA1"]], "xB": [args["dB0"], args["dB1"]],
                  "cC": [idx["iC0"], idx["iC1"]], "xC": [args["dB1"], args["dB0"]],
                  "cD": [idx["iD0"], idx["iD1"]], "xD": [args["dD0"], args["dD1"]],
                  "cS": [idx["iS0"], idx["iB0"], idx["iB1"]], "xS": [args["dS0"], args["dB0"], args["dB1"]]}
    shape = (3, 3)
    cubes = {
        "cA": ccube(dims_lists["cA"], interacting_shape=shape),
        "cB": ccube(dims_lists["cB"], interacting_shape=shape),
        "xA": xcube(dims_lists["xA"], interacting_shape=shape),
        "xB": xcube(dims_lists["xB"], interacting_shape=shape),
        "cC": ccube(dims_lists["cC"], interacting_shape=shape),
        "xC": xcube(dims_lists["xC"], interacting_shape=shape),
        "cD": ccube(dims_lists["cD"], interacting_shape=shape),
        "xD": xcube(dims_lists["xD"], interacting_shape=shape),
        # dimensionless cubes: fill() sees the function object's own arrays whole, not per-cell copies
        "cZ": ccube([]),
        "xZ": xcube([]),
        # the same dimensions as cA / xA with a (never raising) interrupt callback installed: an option that is tested alone elsewhere
        "cK": ccube(dims_lists["cA"], interacting_shape=shape),
        "xK": xcube(dims_lists["xA"], interacting_shape=shape),
        "cS": ccube(dims_lists["cS"], interacting_shape=(1, 3, 3)),
        "xS": xcube(dims_lists["xS"], interacting_shape=(1, 3, 3)),
        "xU": xcube([args["uA0"], args["uA1"]], interacting_shape=shape),
    }
    cubes["cK"].check_interrupt = _no_interrupt
    cubes["xK"].check_interrupt = _no_interrupt
    ff = {
        "count": F.ffunc_count(),
        "count_wA": F.ffunc_count(args["wA"], ignore_missing=True),
        "count_wB": F.ffunc_count(wB, return_missing_as=(0, False)),
        "valid_count_A": F.ffunc_valid_count(fA, args["wA"]),
        "valid_count_B": F.ffunc_valid_count(args["fB"], wB, True),
        "sum_A": F.ffunc_sum(fA, args["wA"], True),
        "sum_B": F.ffunc_sum(args["fB"], wB),
        "sum_i": F.ffunc_sum(iF, return_missing_as=0),
        "sum_C": F.ffunc_sum(args["fC"], args["wC"]),
        "mean_A": F.ffunc_mean(f2A, args["wA"], True, (0, False)),
        "mean_B": F.ffunc_mean(args["f2B"], wB),
        "mean_u": F.ffunc_mean(fA),
        # (C) NaN-marked fact, no weights; (D) (values, validity) fact, no weights
        "valid_count_C": F.ffunc_valid_count(args["fB"]),
        "valid_count_D": F.ffunc_valid_count(f2A, None, True),
        "sum_Cn": F.ffunc_sum(args["fB"]),
        "sum_D": F.ffunc_sum(fA, None, True, (0, False)),
        "mean_C": F.ffunc_mean(args["f2B"], None, True),
    }
    xf = {
        "count": X.xfunc_count(),
        "count_wA": X.xfunc_count(args["wA"], ignore_missing=True),
        "count_wB": X.xfunc_count(wB, return_missing_as=(0, False)),
        "valid_count_A": X.xfunc_valid_count(fA, args["wA"]),
        "valid_count_B": X.xfunc_valid_count(args["f2B"], wB, True),
        "sum_A": X.xfunc_sum(f2A, args["wA"], True),
        "sum_B": X.xfunc_sum(args["fB"], wB),
        "sum_i": X.xfunc_sum(iF, return_missing_as=0),
        "mean_A": X.xfunc_mean(fA, args["wA"], True, (0, False)),
        "mean_B": X.xfunc_mean(args["f2B"], wB),
        "stddev_A": X.xfunc_stddev(fA, args["wA"], True),
        "stddev_B": X.xfunc_stddev(args["f2B"], wB),
        "stddev_C": X.xfunc_stddev(args["f2C"], args["wC"]),
        "quantile_A": X.xfunc_quantile(fA, 0.5, args["wA"], True),
        "quantile_B": X.xfunc_quantile(args["fB"], 0.25, wB),
        "quantile_2": X.xfunc_quantile(f2A, 0.75, None, True),
        "quantile_C": X.xfunc_quantile(args["fC"], 0.25, args["wC"]),
        "max_A": X.xfunc_max(fA, True, (0, False)),
        "max_i": X.xfunc_max(iF, True, (0, False)),
        "min_B": X.xfunc_min(args["fB"]),
        "corrcoef_A": X.xfunc_corrcoef(f2A, None, True),
        "corrcoef_B": X.xfunc_corrcoef(args["f2B"]),
        "covariance_A": X.xfunc_covariance(f2A, args["wA"], True),
        "covariance_B": X.xfunc_covariance(args["f2B"], wB),
        "covariance_C": X.xfunc_covariance(args["f2C"], args["wC"]),
        # (C) NaN-marked fact, no weights; (D) (values, validity) fact, no weights
        "valid_count_C": X.xfunc_valid_count(args["fB"]),
        "sum_Cn": X.xfunc_sum(args["f2B"], None, True),
        "sum_D": X.xfunc_sum(fA),
        "mean_C": X.xfunc_mean(args["fB"]),
        "mean_D": X.xfunc_mean(f2A, None, True),
        "stddev_Cn": X.xfunc_stddev(args["fB"], None, True),
        "stddev_D": X.xfunc_stddev(f2A),
        "quantile_Cn": X.xfunc_quantile(args["f2B"], 0.5, None, True),
        "quantile_D": X.xfunc_quantile(fA, 0.5),
        "quantile_E": X.xfunc_quantile(args["fC"], 0.5),          # unsorted fact, default policy, no weights
        "quantile_F": X.xfunc_quantile(args["f2C"], 0.25, None, True),
        "max_C": X.xfunc_max(args["fB"], True),
        "min_D": X.xfunc_min(fA, True, (0, False)),
        "corrcoef_D": X.xfunc_corrcoef(f2A),
        "covariance_Cn": X.xfunc_covariance(args["f2B"], None, True),
        "covariance_D": X.xfunc_covariance(f2A),
    }
    return {"args": args, "idx": idx, "cubes": cubes, "ff": ff, "xf": xf, "dims_lists": dims_lists, "tuples": {"fA": fA, "f2A": f2A, "iF": iF, "wB": wB}, "pristine": pristine}


def shortcut_call(world, cube_name, spec):
    a = world["args"]
    t = world["tuples"]
    cube = world["cubes"][cube_name]
    name = spec
    if name == "count":
        return cube.count()
    if name == "count_w":
        return cube.count(a["wA"], None, True)
    if name == "valid_count":
        return cube.valid_count(t["fA"], t["wB"])
    if name == "sum":
        return cube.sum(t["iF"], None, False, 0)
    if name == "mean":
        return cube.mean(t["f2A"], a["wA"], True, (0, False))
    if name == "stddev":
        return cube.stddev(t["f2A"], a["wA"], True)
    if name == "quantile":
        return cube.quantile(t["fA"], 0.5, a["wA"], True)
    if name == "max":
        return cube.max(t["iF"], True, (0, False))
    if name == "covariance":
        return cube.covariance(t["f2A"], t["wB"], True)
    raise KeyError(name)


SHORTCUTS = {"c": ["count", "count_w", "valid_count", "sum", "mean"], "x": ["count", "count_w", "valid_count", "sum", "mean", "stddev", "quantile", "max", "covariance"]}


def events(max_sel, func_subset=None):
    """All events: ('calc', cube, (func names...)) and ('short', cube, name)."""
    w = make_world()
    out = []
    for cube in ("cA", "cB", "cC", "xA", "xB", "xC", "cK", "xK", "cS", "xS", "xU"):
        if cube in ("cC", "xC", "cS", "xS", "xU") and max_sel > 1:
            continue
        if cube in ("cK", "xK") and max_sel > 2:
            continue  # the same-shape twins only join the single-function alphabet (depth 2/3 histories)
        names = sorted(w["ff" if cube[0] == "c" else "xf"])
        if func_subset is not None:
            names = [n for n in names if n in func_subset]
        for k in range(1, max_sel + 1):
            for sel in itertools.permutations(names, k):
                out.append(("calc", cube, sel))
        if cube not in ("cC", "xC", "cS", "xS", "xU"):
            # the SAME function object listed twice in one pass (and around another one): each position must equal the aggregate alone
            for n in names:
                out.append(("calc", cube, (n, n)))
            if max_sel >= 2:
                other = names[0]
                for n in names[1:]:
                    out.append(("calc", cube, (n, other, n)))
        for s in SHORTCUTS[cube[0]]:
            out.append(("short", cube, s))
    # cubes with a different row count: only function objects that do not carry per-row arguments
    for cube in ("cD", "xD"):
        out.append(("calc", cube, ("count",)))
        out.append(("short", cube, "count"))
    # dimensionless cubes: every function object that carries its own per-row arguments, one at a time
    for cube in ("cZ", "xZ"):
        names = sorted(n for n in w["ff" if cube[0] == "c" else "xf"] if n != "count")
        if func_subset is not None:
            names = [n for n in names if n in func_subset]
        for n in names:
            out.append(("calc", cube, (n,)))
    return out


def apply_event(world, ev):
    if ev[0] == "calc":
        cube = world["cubes"][ev[1]]
        table = world["ff" if ev[1][0] == "c" else "xf"]
        return cube.calculate([table[n] for n in ev[2]])
    return [shortcut_call(world, ev[1], ev[2])]


_fresh_cache = {}


def fresh_single(ev):
    """Expected output of an event: each aggregate evaluated ALONE on a fresh world."""
    if ev not in _fresh_cache:
        if ev[0] == "calc":
            outs = []
            for n in ev[2]:
                w = make_world()
                outs.extend(harness.freeze(apply_event(w, ("calc", ev[1], (n,)))))
            _fresh_cache[ev] = tuple(outs)
        else:
            _fresh_cache[ev] = harness.freeze(apply_event(make_world(), ev))
    return _fresh_cache[ev]


# ----------------------------------------------------------------------------- state hashing

def _h(obj, h, seen, depth=0):
    if depth > 12:
        h.update(b"<deep>")
        return
    if isinstance(obj, numpy.ndarray):
        h.update(b"nd"); h.update(obj.dtype.str.encode()); h.update(repr(obj.shape).encode()); h.update(numpy.ascontiguousarray(obj).tobytes())
    elif isinstance(obj, numpy.generic):
        h.update(b"ng"); h.update(obj.dtype.str.encode()); h.update(obj.tobytes())
    elif isinstance(obj, (int, float, str, bool, type(None), bytes)):
        h.update(repr(obj).encode())
    elif isinstance(obj, (list, tuple)):
        h.update(b"[" if isinstance(obj, list) else b"(")
        for x in obj:
            _h(x, h, seen, depth + 1)
        h.update(b"]")
    elif isinstance(obj, slice):
        h.update(repr(obj).encode())
    elif isinstance(obj, dict):
        if id(obj) in seen:
            h.update(b"<cycle>")
            return
        seen.add(id(obj))
        h.update(type(obj).__name__.encode())
        if hasattr(obj, "shape") and hasattr(obj, "common"):
            _h(tuple(obj.shape), h, seen, depth + 1)
            _h(obj.common, h, seen, depth + 1)
        try:
            items = sorted(dict.items(obj), key=lambda kv: repr(kv[0]))
        except Exception:
            items = list(dict.items(obj))
        for k, v in items:
            if isinstance(k, str) and k in DIAGNOSTICS:
                continue
            _h(k if not hasattr(k, "__dict__") else type(k).__name__, h, seen, depth + 1)
            _h(v, h, seen, depth + 1)
        if hasattr(obj, "__dict__"):
            _h({k: v for k, v in vars(obj).items() if k not in DIAGNOSTICS}, h, seen, depth + 1)
    elif callable(obj) and not hasattr(obj, "__dict__"):
        h.update(repr(getattr(obj, "__name__", "callable")).encode())
    elif hasattr(obj, "__dict__"):
        if id(obj) in seen:
            h.update(b"<cycle>")
            return
        seen.add(id(obj))
        h.update(type(obj).__name__.encode())
        for k in sorted(vars(obj)):
            if k in DIAGNOSTICS:
                continue
            h.update(k.encode())
            _h(vars(obj)[k], h, seen, depth + 1)
    else:
        h.update(repr(type(obj)).encode())


def state_hash(world):
    h = hashlib.sha256()
    seen = set()
    for part in ("args", "idx", "cubes", "ff", "xf", "dims_lists", "tuples"):
        for k in sorted(world[part]):
            h.update(k.encode())
            _h(world[part][k], h, seen)
    return h.hexdigest()


def args_snapshot(world):
    snap = {}
    for k, a in world["args"].items():
        snap["arg:" + k] = (a.dtype.str, a.shape, a.tobytes())
    for k, ix in world["idx"].items():
        snap["idx:" + k] = (tuple(ix.shape), ix.common, tuple(sorted((c, r.tobytes(), r.dtype.str) for c, r in dict.items(ix))))
    for k, l in world["dims_lists"].items():
        snap["dims:" + k] = tuple(id(x) for x in l)
    for k, t in world["tuples"].items():
        snap["tuple:" + k] = tuple(id(x) for x in t)
    return snap


def _poke(world):
    """The caller edits its own arrays in place between two calls (imputing one missing value, blanking another row): the NaN moves."""
    a = world["args"]
    a["wA"][2], a["wA"][0] = 2.0, float("nan")
    a["fB"][1], a["fB"][2] = 3.0, float("nan")
    a["f2B"][0, 1], a["f2B"][1, 0] = 5.0, float("nan")


def poke_checks():
    """Identity is not equality: the SAME array object, edited in place by its owner, handed to the same call again must be read again - the result
    must equal that of a fresh world in which the edit was made before anything ran."""
    from catii import ffuncs as F
    from catii import xfuncs as X

    builders = {
        "x": [("sum", lambda a: X.xfunc_sum(a["fB"])), ("mean", lambda a: X.xfunc_mean(a["fB"], None, True)), ("valid_count", lambda a: X.xfunc_valid_count(a["f2B"])),
              ("count_w", lambda a: X.xfunc_count(a["wA"], ignore_missing=True)), ("stddev", lambda a: X.xfunc_stddev(a["f2B"], None, True)),
              ("quantile", lambda a: X.xfunc_quantile(a["fB"], 0.5, None, True)), ("max", lambda a: X.xfunc_max(a["fB"], True)), ("sum_w", lambda a: X.xfunc_sum(a["fC"], a["wA"], True))],
        "c": [("sum", lambda a: F.ffunc_sum(a["fB"])), ("mean", lambda a: F.ffunc_mean(a["f2B"], None, True)), ("valid_count", lambda a: F.ffunc_valid_count(a["fB"])),
              ("count_w", lambda a: F.ffunc_count(a["wA"], ignore_missing=True)), ("sum_w", lambda a: F.ffunc_sum(a["fC"], a["wA"], True))],
    }
    viol = []
    n = 0
    for cube in ("xA", "xB", "cA", "cB"):
        calls_ = [("short:" + nm, (lambda w, nm=nm: shortcut_call(w, cube, nm))) for nm in SHORTCUTS[cube[0]]]
        calls_ += [("calc:" + nm, (lambda w, mk=mk: w["cubes"][cube].calculate([mk(w["args"])])[0])) for nm, mk in builders[cube[0]]]
        for label, call in calls_:
            n += 1
            try:
                w = make_world()
                call(w)
                _poke(w)
                got = harness.freeze([call(w)])
                w2 = make_world()
                _poke(w2)
                exp = harness.freeze([call(w2)])
            except Exception as e:  # noqa
                viol.append({"site": "calls:poke-raised", "history": [["poke", cube, label]], "at": 0, "detail": repr(e)})
                continue
            if got != exp:
                viol.append({"site": "calls:result-depends-on-history", "history": [["poke", cube, label]], "at": 1,
                             "detail": "%s on %s, the caller edits its arrays in place, the same call again: %r; a fresh world with the same edit gives %r" % (label, cube, harness.thaw_repr(got), harness.thaw_repr(exp))})
    return viol, n


def run_history(hist, check_all=True):
    """Execute a history on a fresh world. Returns (violations, final_state_hash, hash_changed_at)."""
    w = make_world()
    viol = []
    h0 = state_hash(w)
    snap0 = args_snapshot(w)
    # constructing cubes and aggregate-function objects must already have left the caller's arrays alone
    bad0 = sorted(k for k, v in w["pristine"].items() if snap0[k] != v)
    if bad0:
        viol.append(("argument-modified-by-constructor", -1, "building the cubes / aggregate-function objects changed caller-owned %r" % (bad0,)))
    changed = []
    hcur = h0
    earlier = []  # (event index, live output, frozen at return time)
    for i, ev in enumerate(hist):
        try:
            live = apply_event(w, ev)
            out = harness.freeze(live)
        except Exception as e:  # noqa
            viol.append(("event-raised", i, "event %r raised %r" % (ev, e)))
            break
        for j, lv, fr in earlier:
            if harness.freeze(lv) != fr:
                viol.append(("earlier-result-overwritten", i, "event %r changed the arrays RETURNED by event %d (%r)" % (ev, j, hist[j])))
        earlier.append((i, live, out))
        if check_all or i == len(hist) - 1:
            exp = fresh_single(ev)
            if out != exp:
                viol.append(("result-depends-on-history", i, "event %r after %r returned %r; each aggregate alone on fresh objects gives %r" % (ev, hist[:i], harness.thaw_repr(out), harness.thaw_repr(exp))))
        snap = args_snapshot(w)
        if snap != snap0:
            bad = sorted(k for k in snap0 if snap[k] != snap0[k])
            viol.append(("argument-modified", i, "event %r changed caller-owned %r" % (ev, bad)))
            snap0 = snap
        hn = state_hash(w)
        if hn != hcur:
            changed.append(i)
            hcur = hn
    return viol, hcur, changed, h0
