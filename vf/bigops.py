"""Index operations beyond the bounds of the `hist` state graph: (1) other legal REPRESENTATIONS of the row ids handed to the
entry-wise update methods (lists, ranges, int64 / int32 arrays, strided, reversed and read-only uint32 views), enumerated over
every row subset of two small indexes; (2) WIDE and TALL indexes (129 .. 300 columns, 20 000 / 70 000 rows) through every
operation once, against the same NumPy model.  Used by C06 (dense content), C07 (well-formedness) and C17 (operands untouched)."""
import itertools

import numpy

from . import core, hist
from . import models as M

U32 = numpy.dtype(numpy.uint32)


class Ctx:
    def __init__(self):
        self.viol = []
        self.n = 0

    def v(self, prop, site, opd, detail):
        self.viol.append({"property": prop, "site": site, "op": opd, "detail": str(detail)[:1500],
                          "state": hist.key_from_dense(numpy.zeros((0,), dtype=numpy.int64), 0), "depth": 0})


REPRS = ["list", "range-or-tuple", "int64", "int32", "strided", "reversed-view", "read-only"]


def represent(rows, kind):
    rows = sorted(rows)
    if kind == "list":
        return list(rows)
    if kind == "range-or-tuple":
        if rows and rows == list(range(rows[0], rows[-1] + 1)):
            return range(rows[0], rows[-1] + 1)
        return tuple(rows)
    if kind == "int64":
        return numpy.array(rows, dtype=numpy.int64)
    if kind == "int32":
        return numpy.array(rows, dtype=numpy.int32)
    if kind == "strided":
        big = numpy.full(3 * len(rows) + 1, 0xBAD, dtype=U32)
        big[::3][:len(rows)] = rows
        return big[::3][:len(rows)]
    if kind == "reversed-view":
        return numpy.array(rows[::-1], dtype=U32)[::-1]
    if kind == "read-only":
        a = numpy.array(rows, dtype=U32)
        a.flags.writeable = False
        return a
    raise KeyError(kind)


def _snapshot(x):
    return list(x) if not isinstance(x, numpy.ndarray) else x.tolist()


def _check(ctx, obj, exp, opd, opname):
    ctx.n += 1
    ok = hist.dense_equal(obj, exp, opd, ctx, opname)
    hist.wellformed(obj, exp if ok else None, opd, ctx, opname)


def repr_family(ctx, tier):
    """update / union_update / difference_update with the row ids in every representation, every row subset."""
    bases = [
        (numpy.array([1, 0, 1, 0, 1, 0, 0, 0, 0, 2], dtype=numpy.int64), 0),
        (numpy.array([[1, 0], [0, 2], [1, 1], [0, 0], [1, 0], [0, 2], [0, 0], [2, 0]], dtype=numpy.int64), 0),
    ]
    for d, common in bases:
        cols = [()] if d.ndim == 1 else [(c,) for c in range(d.shape[1])]
        for col in cols:
            column = d[(slice(None),) + col]
            held = {v: [r for r in range(len(column)) if column[r] == v] for v in (0, 1, 2)}
            jobs = []
            # union_update: rows that hold the common value take value 1 (joining the rows that already hold it)
            for k in range(1, len(held[0]) + 1):
                for R in itertools.combinations(held[0], k):
                    jobs.append(("union_update", 1, R))
            # difference_update: rows holding 1 go back to the common value
            for k in range(1, len(held[1]) + 1):
                for R in itertools.combinations(held[1], k):
                    jobs.append(("difference_update", 1, R))
            # update: any rows take any value (incl. the common one and a new one)
            for v in (0, 1, 2, 3):
                for k in (1, 2, 3):
                    for R in itertools.combinations(range(len(column)), k):
                        if k == 3 and (R[0] + R[1] + R[2]) % 4:
                            continue
                        jobs.append(("update", v, R))
            for ji, (op, v, R) in enumerate(jobs):
                kinds = REPRS if tier == "thorough" else [REPRS[ji % len(REPRS)], REPRS[(ji * 3 + 1) % len(REPRS)]]
                for kind in kinds:
                    exp = d.copy()
                    exp[(list(R),) + col] = common if op == "difference_update" else v
                    arg = represent(R, kind)
                    snap = _snapshot(arg)
                    ent = {(v,) + col: arg}
                    opd = {"op": op, "big": "repr", "base": d.tolist(), "entry": [v] + list(col), "rows": list(R), "representation": kind}
                    s = M.build_index(d, common)
                    try:
                        getattr(s, op)(ent)
                    except Exception as e:  # noqa
                        ctx.v("C06", "%s:raised" % op, opd, repr(e))
                        continue
                    _check(ctx, s, exp, opd, op)
                    if _snapshot(arg) != snap or list(ent) != [(v,) + col]:
                        ctx.v("C17", "%s:operand-modified" % op, opd, "the entries argument changed")


def _pattern(shape, salt=0):
    r = numpy.arange(shape[0], dtype=numpy.int64)
    if len(shape) == 1:
        return ((r * 7 + r // 3 + salt) % 11 % 3)
    c = numpy.arange(shape[1], dtype=numpy.int64)
    return ((r[:, None] * 5 + c[None, :] + c[None, :] // 7 + salt) % 3)


def big_family(ctx, tier):
    """Wide (many columns) and tall (many rows) indexes through every operation once."""
    from catii import iindexes
    from catii.iindexes import iindex

    shapes = [(3, 128), (3, 129), (3, 300), (2, 1025), (20000,), (70000,), (20001, 2)]
    if tier == "thorough":
        shapes += [(2, 5000), (300000,), (70001, 3)]
    for shape in shapes:
        d = _pattern(shape)
        nrows = shape[0]
        tag = {"big": list(shape)}
        for common in (0, 1, 3):
            def fresh():
                return M.build_index(d, common) if d.size < 5000 else iindex.from_array(d, common=common)

            # shift_common every way
            for v in (None, 0, 1, 2, 3):
                opd = dict(tag, op="shift_common", to=v, common=common)
                s = fresh()
                try:
                    s.shift_common(v) if v is not None else s.shift_common()
                except Exception as e:  # noqa
                    ctx.v("C06", "shift_common:raised", opd, repr(e))
                    continue
                _check(ctx, s, d, opd, "shift_common")
            if common == 3:
                continue
            # filtered
            mask = (numpy.arange(nrows) % 3) != 1
            opd = dict(tag, op="filtered", common=common)
            try:
                r = fresh().filtered(mask, int(mask.sum()))
                _check(ctx, r, d[mask], opd, "filtered")
            except Exception as e:  # noqa
                ctx.v("C06", "filtered:raised", opd, repr(e))
            # append a block of the same width
            o = _pattern((5,) + tuple(shape[1:]), salt=1)
            opd = dict(tag, op="append", common=common)
            try:
                s = fresh()
                s.append(M.build_index(o, 1))
                _check(ctx, s, numpy.concatenate([d, o]), opd, "append")
            except Exception as e:  # noqa
                ctx.v("C06", "append:raised", opd, repr(e))
            # reindexed
            for copy in (False, True):
                opd = dict(tag, op="reindexed", common=common, copy=copy)
                try:
                    m = {0: 1, 1: 0}
                    r = fresh().reindexed(dict(m), copy=copy)
                    exp = numpy.where(d == 0, 1, numpy.where(d == 1, 0, d))
                    _check(ctx, r, exp, opd, "reindexed")
                except Exception as e:  # noqa
                    ctx.v("C06", "reindexed:raised", opd, repr(e))
            # update a few cells far apart
            cells = [(0,) + tuple(x - 1 for x in shape[1:]), (nrows - 1,) + tuple(0 for _ in shape[1:]), (nrows // 2,) + tuple(x // 2 for x in shape[1:])]
            opd = dict(tag, op="update", common=common)
            try:
                s = fresh()
                exp = d.copy()
                ent = {}
                for i, cell in enumerate(cells):
                    v = (int(d[cell]) + 1 + i) % 4
                    exp[cell] = v
                    ent.setdefault((v,) + tuple(cell[1:]), []).append(cell[0])
                s.update({k: numpy.array(sorted(rs), dtype=U32) for k, rs in ent.items()})
                _check(ctx, s, exp, opd, "update")
            except Exception as e:  # noqa
                ctx.v("C06", "update:raised", opd, repr(e))
            if len(shape) == 2:
                ncols = shape[1]
                # sliced: one column, a reversed order list, a far pair
                for order in (ncols - 1, [ncols - 1, 0], list(range(ncols - 1, -1, -1))[: min(ncols, 200)]):
                    opd = dict(tag, op="sliced", common=common, order=order if isinstance(order, int) else [order[0], order[-1], len(order)])
                    try:
                        r = fresh().sliced(order)
                        _check(ctx, r, d[:, order], opd, "sliced")
                    except Exception as e:  # noqa
                        ctx.v("C06", "sliced:raised", opd, repr(e))
                # slices1d
                opd = dict(tag, op="slices1d", common=common)
                try:
                    seen = {}
                    for coords, sl in fresh().slices1d():
                        seen[tuple(coords)] = sl
                    if sorted(seen) != [(c,) for c in range(ncols)]:
                        ctx.v("C06", "slices1d:coordinates", opd, "%d slices, first %r last %r" % (len(seen), sorted(seen)[:2], sorted(seen)[-2:]))
                    else:
                        for c in (0, 1, ncols // 2, ncols - 2, ncols - 1):
                            _check(ctx, seen[(c,)], d[:, c], dict(opd, coords=[c]), "slices1d")
                except Exception as e:  # noqa
                    ctx.v("C06", "slices1d:raised", opd, repr(e))
                # collapsed
                if nrows <= 5000:
                    for prec in ([1, 0, 2], [2, 1], [0, 2, 1]):
                        opd = dict(tag, op="collapsed", common=common, precedence=prec)
                        try:
                            r = fresh().collapsed(list(prec))
                            exp = numpy.array([next((p for p in prec if p in set(d[i].tolist())), prec[-1]) for i in range(nrows)], dtype=numpy.int64)
                            _check(ctx, r, exp, opd, "collapsed")
                        except Exception as e:  # noqa
                            ctx.v("C06", "collapsed:raised", opd, repr(e))
                # column_stack with a flat partner, both orders
                partner = _pattern((nrows,), salt=2)
                for self_first in (True, False):
                    for nc in (None, 2):
                        opd = dict(tag, op="column_stack", common=common, self_first=self_first, new_common=nc)
                        try:
                            a, b = fresh(), M.build_index(partner, 1) if nrows < 5000 else iindex.from_array(partner, common=1)
                            lst = [a, b] if self_first else [b, a]
                            r = iindexes.column_stack(lst, new_common=nc, copy=True)
                            exp = numpy.column_stack([d, partner] if self_first else [partner, d])
                            _check(ctx, r, exp, opd, "column_stack")
                        except Exception as e:  # noqa
                            ctx.v("C06", "column_stack:raised", opd, repr(e))


def collapse_mapping_family(ctx, tier):
    """collapsed(precedence, mapping): the rarely used second argument. Model: map the values (unmentioned ones stay), then collapse;
    the caller's mapping and precedence list must not change."""
    mappings = [{1: 2}, {0: 1, 1: 0}, {2: -1}, {0: 5, 1: 5}, {1: 0}, {}]
    precs = [[1, 0, 2], [2, 1], [0, -1, 1], [5, 2, 0], [-1, 2]]
    shapes = [(2, 2), (3, 2)] if tier == "quick" else [(2, 2), (3, 2), (2, 3)]
    for shape in shapes:
        for d in M.all_arrays(shape, range(3)):
            for common in (0, 1, 2):
                for mp in mappings:
                    md = numpy.vectorize(lambda x: mp.get(int(x), int(x)), otypes=[numpy.int64])(d) if d.size else d
                    for prec in precs:
                        m_arg, p_arg = dict(mp), list(prec)
                        opd = {"op": "collapsed", "big": "collapse-mapping", "array": d.tolist(), "common": common, "mapping": {str(k): v for k, v in mp.items()}, "precedence": prec}
                        try:
                            r = M.build_index(d, common).collapsed(p_arg, m_arg)
                        except Exception as e:  # noqa
                            ctx.v("C06", "collapsed:raised", opd, repr(e))
                            continue
                        exp = numpy.array([next((p for p in prec if p in set(md[i].tolist())), prec[-1]) for i in range(shape[0])], dtype=numpy.int64)
                        _check(ctx, r, exp, opd, "collapsed")
                        if m_arg != mp:
                            ctx.v("C17", "collapsed:mapping-modified", opd, "the caller's mapping changed from %r to %r" % (mp, m_arg))
                        if p_arg != prec:
                            ctx.v("C17", "collapsed:precedence-modified", opd, "the caller's precedence list changed to %r" % (p_arg,))


def numpy_length_family(ctx, tier):
    """filtered(mask, mask.sum()): the new length arrives as a NumPy integer (what mask.sum() returns) and ends up in the shape; every operation
    applied to such a result must still give the model's array with uint32 row ids.  (The shape's element type itself is not judged: the pinned
    tree stores what it is given.)"""
    from catii import iindexes

    def ok(obj, exp, opd, opname):
        ctx.n += 1
        try:
            got = M.read_dense(obj)
        except Exception as e:  # noqa
            ctx.v("C07", "%s:after-filtered:unreadable" % opname, opd, repr(e))
            return
        if got.tolist() != exp.tolist():
            ctx.v("C06", "%s:after-filtered:dense" % opname, opd, "got %r, expected %r" % (got.tolist(), exp.tolist()))
        bad = [k for k, v in dict.items(obj) if numpy.asarray(v).dtype != U32]
        if bad:
            ctx.v("C07", "%s:after-filtered:dtype" % opname, opd, "entries %r are not uint32: %r" % (bad, [str(numpy.asarray(dict.__getitem__(obj, k)).dtype) for k in bad]))

    for shape in ((3,), (3, 2)):
        for d in M.all_arrays(shape, range(3)):
            for bits in itertools.product((False, True), repeat=shape[0]):
                mask = numpy.array(bits, dtype=bool)
                if not mask.any():
                    continue
                base = {"op": "filtered-then", "big": "numpy-length", "array": d.tolist(), "mask": [bool(b) for b in bits]}
                fd = d[mask]

                def fresh():
                    return M.build_index(d, 0).filtered(mask, mask.sum())

                try:
                    ok(fresh(), fd, dict(base, then="nothing"), "filtered")
                    r = fresh()
                    o = numpy.full((1,) + shape[1:], 1, dtype=numpy.int64)
                    r.append(M.build_index(o, 0))
                    ok(r, numpy.concatenate([fd, o]), dict(base, then="append"), "append")
                    # ... and the appended index goes on being used
                    ok(r.copy(), numpy.concatenate([fd, o]), dict(base, then="append, copy"), "copy")
                    r.union_update({(2,) + (0,) * (fd.ndim - 1): numpy.array([fd.shape[0]], dtype=U32)})
                    exp2 = numpy.concatenate([fd, o])
                    exp2[(fd.shape[0],) + (0,) * (fd.ndim - 1)] = 2
                    r.difference_update({(1,) + (0,) * (fd.ndim - 1): numpy.array([fd.shape[0]], dtype=U32)})
                    ok(r, exp2, dict(base, then="append, set updates"), "union_update")
                    ok(fresh().copy(), fd, dict(base, then="copy"), "copy")
                    r = fresh()
                    r.shift_common(2)
                    ok(r, fd, dict(base, then="shift_common(2)"), "shift_common")
                    r = fresh()
                    exp = fd.copy()
                    cell = (0,) * fd.ndim
                    exp[cell] = 2
                    r.update({(2,) + cell[1:]: numpy.array([0], dtype=U32)})
                    ok(r, exp, dict(base, then="update"), "update")
                    ok(fresh().reindexed({0: 1, 1: 0}), numpy.where(fd == 0, 1, numpy.where(fd == 1, 0, fd)), dict(base, then="reindexed"), "reindexed")
                    if len(shape) == 2:
                        ok(fresh().sliced([1, 0]), fd[:, [1, 0]], dict(base, then="sliced"), "sliced")
                    else:
                        ok(iindexes.column_stack([fresh(), fresh()]), numpy.column_stack([fd, fd]), dict(base, then="column_stack"), "column_stack")
                except Exception as e:  # noqa
                    ctx.v("C06", "after-filtered:raised", base, repr(e))


def reindexed_merge_family(ctx, tier):
    """reindexed with mappings that send THREE or four values to one: every array of shape (6,) and (3, 2) over four values (the runs of the
    merged values interleave in every order), with and without copy, the common value merged or not."""
    mappings = [{1: 7, 2: 7, 3: 7}, {0: 7, 1: 7, 2: 7}, {0: 9, 1: 9, 2: 9, 3: 9}, {1: 2, 3: 2}, {3: 0, 2: 0, 1: 0}]
    for shape in ((6,), (3, 2)) if tier == "quick" else ((6,), (7,), (3, 2), (4, 2)):
        for d in M.all_arrays(shape, range(4)):
            if len(set(d.flat)) < 3:
                continue
            for common in (0, 3):
                for mi, mp in enumerate(mappings):
                    exp = numpy.vectorize(lambda x: mp.get(int(x), int(x)), otypes=[numpy.int64])(d)
                    for copy, shift in ((False, True), (True, False)):
                        # shift=False keeps the (mapped) common value, so the merged value keeps its explicit entry however frequent it is
                        opd = {"op": "reindexed", "big": "reindexed-merge", "array": d.tolist(), "common": common, "mapping": {str(k): v for k, v in mp.items()}, "copy": copy, "shift": shift}
                        try:
                            r = M.build_index(d, common).reindexed(dict(mp), copy=copy, shift=shift)
                        except Exception as e:  # noqa
                            ctx.v("C06", "reindexed:raised", opd, repr(e))
                            continue
                        _check(ctx, r, exp, opd, "reindexed")


def indx_family(ctx, tier):
    """An index saved with the narrowest row-id word its row count allows (8 / 16 / 32 bits), loaded and rebuilt: the rebuilt index must be
    well-formed and stand for the same array. The entries together list more cells than the narrow word can count."""
    import os

    from catii.iindexes import iindex
    from catii.indxio import IndxIO

    shapes = [(200, 3), (256, 2), (250, 5), (60000, 2), (40000, 3), (65536, 2), (70000, 2)]
    if tier == "thorough":
        shapes += [(255, 40), (65535, 5)]
    for shape in shapes:
        d = _pattern(shape)
        word = numpy.dtype(numpy.uint8 if shape[0] <= 256 else numpy.uint16 if shape[0] <= 65536 else numpy.uint32)
        for common in (0, 2):
            opd = {"op": "indx-roundtrip", "big": "indx-narrow", "shape": list(shape), "common": common, "rowid_word": word.name}
            ix = iindex.from_array(d, common=common)
            ents = {k: numpy.asarray(v).astype(word) for k, v in ix.items()}
            ctx.seq = getattr(ctx, "seq", 0) + 1
            path = os.path.join(core.scratch_dir(), "bi-%d-%d.indx" % (os.getpid(), ctx.seq))
            try:
                try:
                    with open(path, "wb") as f:
                        IndxIO.save(f, ents, common, word)
                except Exception:
                    continue            # a writer may refuse narrow row ids (C11 decides what it writes)
                with open(path, "rb") as f:
                    loaded, cm, dt = IndxIO.load(f)
                    loaded = {k: numpy.array(v, copy=True) for k, v in loaded.items()}
                back = iindex(loaded, cm, tuple(shape))
                _check(ctx, back, d, opd, "indx-roundtrip")
            except Exception as e:  # noqa
                ctx.v("C06", "indx-roundtrip:raised", opd, repr(e))
            finally:
                if os.path.exists(path):
                    os.unlink(path)


def parts(prop):
    """Three independent families as functions (res, tier) -> (violations of `prop`, counters)."""
    def mk(fn, label):
        def run(res, tier):
            ctx = Ctx()
            fn(ctx, tier)
            return [v for v in ctx.viol if v["property"] == prop], {label: ctx.n}
        return run
    return [mk(repr_family, "representation_cases_of_entry_updates"), mk(collapse_mapping_family, "collapsed_with_mapping_cases"), mk(big_family, "wide_and_tall_index_operations"),
            mk(numpy_length_family, "operations_after_filtered_with_a_numpy_length"), mk(reindexed_merge_family, "reindexed_merging_three_or_more_values"),
            mk(indx_family, "narrow_word_indx_roundtrips")]


def family(res, tier, prop):
    viol, cov = [], {}
    for fn in parts(prop):
        v, c = fn(res, tier)
        viol.extend(v)
        cov.update(c)
    return viol, cov
