"""C13: extra axes are outermost, in dimension order then axis order, and index independent sub-cubes."""
import itertools

import numpy

from .. import cubes as Q
from .. import models as M
from . import c03

ID = "C13"
LEVEL = "exploration"

# (N, [extra extents per dim])
CONFIGS = {
    "quick": [
        (1, [[2]]), (2, [[2]]), (1, [[3]]), (2, [[3]]), (1, [[2, 3]]), (1, [[1, 4]]),
        (1, [[2], []]), (2, [[2], []]), (1, [[], [2]]), (2, [[], [2]]), (1, [[2], [3]]), (1, [[3], [2]]),
        (1, [[2, 3], [2]]), (1, [[2], [2, 3]]), (1, [[], [3], []]), (1, [[2], [], [3]]),
        (0, [[2, 3], [2]]),
        # extra axes of extent exactly 1 (one sub-cube, but the axes and coordinates are still there)
        (2, [[1], []]), (2, [[], [1, 1]]), (2, [[1], [1, 1]]),
    ],
    "thorough": [
        (1, [[2]]), (2, [[2]]), (3, [[2]]), (1, [[3]]), (2, [[3]]), (1, [[2, 3]]), (1, [[1, 4]]), (1, [[3, 2]]), (1, [[4, 1]]),
        (1, [[2], []]), (2, [[2], []]), (1, [[], [2]]), (2, [[], [2]]), (3, [[], [2]]), (1, [[2], [3]]), (1, [[3], [2]]), (2, [[2], [3]]),
        (1, [[2, 3], [2]]), (1, [[2], [2, 3]]), (1, [[1, 4], [3]]), (1, [[], [3], []]), (2, [[], [3], []]), (1, [[2], [], [3]]), (1, [[2], [3], [2]]),
        (0, [[2, 3], [2]]), (2, [[2, 3]]),
        (2, [[1], []]), (3, [[1], []]), (2, [[], [1, 1]]), (2, [[1], [1, 1]]), (2, [[1, 1], [], [1]]),
    ],
}
E = 2


def describe(tier):
    return {
        "rule": "for every configuration (rows N, extra-axis extents per dimension; unequal extents, two multi-axis dimensions together, 3-axis indexes) EVERY data array "
        "over {0,1} and EVERY common value 0..2 per dimension; calls: count/valid_count/sum/mean x policy x a weight/fact menu (none, scalar, array with missing; "
        "1- and 2-column facts with a missing cell). Checks for both cube types: result.shape == extra extents (dimension order, then axis order) + category extents "
        "(+ fact columns); for every extra-coordinate combination the block equals the same aggregate computed by the library from the harness-sliced 1-D "
        "dimensions; index cube and array cube agree; the array cube over the same dimension arrays in Fortran order, as a transposed view of axes-first data and as nested lists gives the same result; the statistics only the array cube offers (max/min, quantile, stddev, covariance, corrcoef; 1- and 2-column facts, weighted and not) are checked the same way, "
        "block by block, with their trailing column / matrix axes. Non-trivial: two different extra coordinates select slices with different data. Distinct = distinct (config, data, commons, call).",
        "bounds": {"configs": [(n, ex) for n, ex in CONFIGS[tier]], "E": E},
        "exhaustive": True,
        "assumptions": ["3-axis indexes are built by the harness builder"],
    }


def call_menu(N, light=False):
    if light:
        full = call_menu(N)
        keep = [full[0], full[3 if N else 2], full[-2 if N else -1], full[6 if N else 4]]
        return keep
    out = []
    for ignore in (False, True):
        out.append(("count", ignore, ("none",), None))
    out.append(("count", False, ("scalar", 2.0), None))
    if N:
        out.append(("count", False, ("array", tuple("PM"[r % 2] for r in range(N)), "nan"), None))
        out.append(("count", True, ("array", tuple("MP"[r % 2] for r in range(N)), "nan"), None))
    pat1 = tuple(r == 0 for r in range(N))
    pat2 = tuple((r + k) % 2 == 0 for r in range(N) for k in range(2))
    for agg in ("valid_count", "sum", "mean"):
        out.append((agg, False, ("none",), (0, "pow2", tuple([False] * N), "nan")))
        out.append((agg, True, ("none",), (0, "pow2", pat1, "nan")))
        out.append((agg, False, ("scalar", 2.0), (2, "pow2", tuple([False] * (2 * N)), "pair-huge")))
        if N:
            out.append((agg, True, ("array", tuple("P" * N), "nan"), (2, "pow2", pat2, "pair-nan")))
    return out


def blocks(tier):
    out = []
    for ci, (N, extras) in enumerate(CONFIGS[tier]):
        sizes = [2 ** (N * int(numpy.prod(ex)) if ex else N) * 3 for ex in extras]
        n0 = sizes[0]
        rest = 1
        for s in sizes[1:]:
            rest *= s
        per = max(1, 300 // max(1, rest))
        for a in range(0, n0, per):
            out.append(("cfg", {"tier": tier, "ci": ci, "a0": a, "a1": min(n0, a + per)}))
    return out


def eq(a, b, grand):
    va, ma = a
    vb, mb = b
    if va.shape != vb.shape:
        return "shape %r vs %r" % (va.shape, vb.shape)
    if not numpy.array_equal(ma, mb):
        return "missing %r vs %r" % (ma.astype(int).tolist(), mb.astype(int).tolist())
    ok = ~mb
    if ok.any() and not numpy.all(numpy.abs(va[ok].astype(float) - vb[ok].astype(float)) <= 1e-9 * max(1.0, grand)):
        return "values %r vs %r" % (va.tolist(), vb.tolist())
    return None


def is_heavy(N, extras):
    cells = sum(N * int(numpy.prod(ex)) if ex else N for ex in extras)
    return cells >= 6


def check(denses, commons, N, acc, base, only_call=None):
    from catii.ccubes import ccube
    from catii.xcubes import xcube

    D = len(denses)
    shape = (E + 1,) * D
    scaffold = M.scaffold_of(denses)
    dims = [M.build_index(d, c) for d, c in zip(denses, commons)]
    light = is_heavy(N, [list(d.shape[1:]) for d in denses]) and base.get("tier") == "quick"
    menu = call_menu(N, light)
    pipeline_calls = [menu[0], menu[-1]] + ([only_call] if only_call is not None else [])
    for call in (menu if only_call is None else [only_call]):
        agg, ignore, ws, fs = call
        f_arg, x, valid, K, w_arg, w, wok = c03.realise(N, ws, fs)
        grand = Q.grand_total(x, w, N, K)
        case = dict(base, agg=agg, ignore=ignore, weights=ws, fact=fs)
        want_shape = scaffold + shape + ((K,) if (K and agg != "count") else ())
        full = {}
        for kind in ("ccube", "xcube"):
            try:
                f2, _, _, _, w2, _, _ = c03.realise(N, ws, fs)
                cube = ccube(dims, interacting_shape=shape) if kind == "ccube" else xcube(denses, interacting_shape=shape)
                r = Q.normalise(Q.call_cube(cube, agg, f2, w2, ignore, Q.NaN), Q.NaN)
            except Exception as e:  # noqa
                acc.violation("%s:%s:raised" % (kind, agg), case, repr(e))
                continue
            acc.count(kind + "_evals")
            if tuple(r[0].shape) != tuple(want_shape):
                acc.violation("%s:%s:shape" % (kind, agg), case, "result shape %r, expected extra extents %r + categories %r (+ columns) = %r" % (r[0].shape, scaffold, shape, want_shape))
                continue
            full[kind] = r
            # every block against the sub-cube of the harness-sliced 1-D dimensions
            for fc in itertools.product(*[range(e) for e in scaffold]):
                sub = M.sub_dims(denses, fc)
                try:
                    f3, _, _, _, w3, _, _ = c03.realise(N, ws, fs)
                    if kind == "ccube":
                        sc = ccube([M.build_index(s, c) for s, c in zip(sub, commons)], interacting_shape=shape)
                    else:
                        sc = xcube([numpy.ascontiguousarray(s) for s in sub], interacting_shape=shape)
                    rs = Q.normalise(Q.call_cube(sc, agg, f3, w3, ignore, Q.NaN), Q.NaN)
                except Exception as e:  # noqa
                    acc.violation("%s:%s:subcube-raised" % (kind, agg), dict(case, block=list(fc)), repr(e))
                    continue
                blk = (r[0][fc], r[1][fc])
                msg = eq(blk, rs, grand)
                if msg:
                    acc.violation("%s:%s:block" % (kind, agg), dict(case, block=list(fc)), "block at extra coords %r != cube of the 1-D slices: %s" % (fc, msg))
        if call in pipeline_calls and "ccube" in full:
            # (i) one index cube asked again after each in-place change of its first dimension == a cube built after the change
            hd = [M.build_index(d, c) for d, c in zip(denses, commons)]
            try:
                held = ccube(hd, interacting_shape=shape)
                f2, _, _, _, w2, _, _ = c03.realise(N, ws, fs)
                Q.call_cube(held, agg, f2, w2, ignore, Q.NaN)
                for label, apply, nd in Q.in_place_changes(hd, denses):
                    apply()
                    f2, _, _, _, w2, _, _ = c03.realise(N, ws, fs)
                    r_held = Q.normalise(Q.call_cube(held, agg, f2, w2, ignore, Q.NaN), Q.NaN)
                    f2, _, _, _, w2, _, _ = c03.realise(N, ws, fs)
                    r_new = Q.normalise(Q.call_cube(ccube(hd, interacting_shape=shape), agg, f2, w2, ignore, Q.NaN), Q.NaN)
                    acc.count("pipeline_evals")
                    msg = eq(r_held, r_new, grand)
                    if msg:
                        acc.violation("ccube:%s:same-cube-after-change" % agg, dict(case, after=label), "the cube built before %s vs a cube built after it: %s" % (label, msg))
                        break
            except Exception as e:  # noqa
                acc.violation("ccube:%s:same-cube-after-change:raised" % agg, case, repr(e))
        if call in pipeline_calls and "ccube" in full and any(d.ndim >= 2 for d in denses):
            # (iii) identity vs equality: the SAME multi-axis index object standing for two dimensions == that index and a copy of it
            try:
                a = next(M.build_index(d, c) for d, c in zip(denses, commons) if d.ndim >= 2)
                sh2 = (E + 1, E + 1)
                f2, _, _, _, w2, _, _ = c03.realise(N, ws, fs)
                r_same = Q.normalise(Q.call_cube(ccube([a, a], interacting_shape=sh2), agg, f2, w2, ignore, Q.NaN), Q.NaN)
                f2, _, _, _, w2, _, _ = c03.realise(N, ws, fs)
                r_copy = Q.normalise(Q.call_cube(ccube([a, a.copy()], interacting_shape=sh2), agg, f2, w2, ignore, Q.NaN), Q.NaN)
                acc.count("pipeline_evals")
                msg = eq(r_same, r_copy, grand)
                if msg:
                    acc.violation("ccube:%s:same-object-twice" % agg, case, "ccube([A, A]) vs ccube([A, A.copy()]): %s" % msg)
            except Exception as e:  # noqa
                acc.violation("ccube:%s:same-object-twice:raised" % agg, case, repr(e))
        if call in pipeline_calls and "xcube" in full and N:
            # (ii) the array cube over the narrow unsigned arrays an index converts to: evaluated twice, the arrays must stay what they were
            # and both evaluations (and a second cube over the same arrays) must agree
            try:
                narrow = [Q.unsigned_view(d) for d in denses]
                snap = [a.tobytes() for a in narrow]
                xc = xcube(narrow, interacting_shape=shape)
                outs = []
                for cube_ in (xc, xc, xcube(narrow, interacting_shape=shape)):
                    f2, _, _, _, w2, _, _ = c03.realise(N, ws, fs)
                    outs.append(Q.normalise(Q.call_cube(cube_, agg, f2, w2, ignore, Q.NaN), Q.NaN))
                    acc.count("pipeline_evals")
                if [a.tobytes() for a in narrow] != snap:
                    acc.violation("xcube:%s:dimension-array-modified" % agg, case, "evaluating the array cube changed the caller's dimension arrays")
                for i, o in enumerate(outs):
                    msg = eq(o, full["xcube"], grand)
                    if msg:
                        acc.violation("xcube:%s:repeated-evaluation" % agg, dict(case, evaluation=i), "evaluation %d over the same uint8 / uint16 arrays: %s" % (i, msg))
                        break
            except Exception as e:  # noqa
                acc.violation("xcube:%s:repeated-evaluation:raised" % agg, case, repr(e))
        if call in pipeline_calls and scaffold:
            # the same cube evaluated with its worker pool switched on (the real thread pool, default size and more workers than blocks): one
            # block per task must still be every block. Schedules are left to the OS here; C16 explores them.
            for kind in full:
                for ps in ((None, 7) if call == menu[0] else (None,)):
                    try:
                        f2, _, _, _, w2, _, _ = c03.realise(N, ws, fs)
                        cube = ccube([M.build_index(d, c) for d, c in zip(denses, commons)], interacting_shape=shape) if kind == "ccube" else xcube(denses, interacting_shape=shape)
                        cube.parallel = True
                        if ps is not None:
                            cube.poolsize = ps
                        rp = Q.normalise(Q.call_cube(cube, agg, f2, w2, ignore, Q.NaN), Q.NaN)
                    except Exception as e:  # noqa
                        acc.violation("%s:%s:pooled-raised" % (kind, agg), dict(case, poolsize=ps), repr(e))
                        continue
                    acc.count("pooled_evals")
                    msg = eq(rp, full[kind], grand)
                    if msg:
                        acc.violation("%s:%s:pooled-blocks" % (kind, agg), dict(case, poolsize=ps), "evaluated with the worker pool on (poolsize %s) vs serially: %s" % (ps or "default", msg))
        if len(full) == 2:
            msg = eq(full["ccube"], full["xcube"], grand)
            if msg:
                acc.violation("both:%s:disagree" % agg, case, "index cube vs array cube: %s" % msg)
        if "xcube" in full and any(d.ndim >= 2 for d in denses):
            # the same dimension arrays in other memory layouts / representations: Fortran order, a transposed view of data kept
            # axes-first, nested lists
            for lname, conv in (("fortran", numpy.asfortranarray), ("axes-first-view", lambda d: numpy.ascontiguousarray(numpy.moveaxis(d, 0, -1)).transpose((d.ndim - 1,) + tuple(range(d.ndim - 1))) if d.ndim >= 2 else d),
                                ("lists", lambda d: d.tolist())):
                if lname == "lists" and N == 0:
                    continue    # an empty nested list no longer says how many columns there are: not the same dimension
                try:
                    f2, _, _, _, w2, _, _ = c03.realise(N, ws, fs)
                    rl = Q.normalise(Q.call_cube(xcube([conv(d) for d in denses], interacting_shape=shape), agg, f2, w2, ignore, Q.NaN), Q.NaN)
                except Exception as e:  # noqa
                    acc.violation("xcube:%s:%s:raised" % (agg, lname), case, repr(e))
                    continue
                acc.count("xcube_layout_evals")
                msg = eq(rl, full["xcube"], grand)
                if msg:
                    acc.violation("xcube:%s:%s:differs" % (agg, lname), case, "array cube over the same dimensions in %s layout: %s" % (lname, msg))
        yield call


def stat_menu(N):
    """The statistics only the array cube offers: (name, thunk(cube) -> (values, validity), trailing shape)."""
    f1 = numpy.array([3.0, 1.0, 2.0][:N])
    f1m = f1.copy()
    if N:
        f1m[0] = Q.NaN
    f2 = numpy.array([[1.0, 7.0], [4.0, 2.0], [2.0, 11.0]][:N]).reshape((N, 2))
    w = numpy.array([0.5, 1.0, 2.0][:N])
    fmt = (0, False)
    return [
        ("max", lambda c: c.max(f1.copy(), False, fmt), ()),
        ("min-ignoring", lambda c: c.min(f1m.copy(), True, fmt), ()),
        ("max-2col", lambda c: c.max(f2.copy(), False, fmt), (2,)),
        ("quantile", lambda c: c.quantile(f1.copy(), 0.5, None, False, fmt), ()),
        ("quantile-w-2col", lambda c: c.quantile(f2.copy(), 0.25, w.copy(), True, fmt), (2,)),
        ("stddev", lambda c: c.stddev(f1.copy(), None, False, fmt), ()),
        ("stddev-w-2col", lambda c: c.stddev(f2.copy(), w.copy(), True, fmt), (2,)),
        ("covariance", lambda c: c.covariance(f2.copy(), None, False, fmt), (2, 2)),
        ("covariance-w", lambda c: c.covariance(f2.copy(), w.copy(), True, fmt), (2, 2)),
        ("corrcoef", lambda c: c.corrcoef(f2.copy(), None, False, fmt), (2, 2)),
    ]


def check_stats(denses, N, acc, base):
    """`every aggregate`: the statistics of the array cube alone, block by block against the cube of the harness-sliced 1-D dimensions."""
    from catii.xcubes import xcube

    D = len(denses)
    shape = (E + 1,) * D
    scaffold = M.scaffold_of(denses)
    for name, thunk, trail in stat_menu(N):
        case = dict(base, stat=name)
        try:
            v, ok = thunk(xcube(denses, interacting_shape=shape))
            v, ok = numpy.asarray(v), numpy.asarray(ok).astype(bool)
        except Exception as e:  # noqa
            acc.violation("xcube:%s:raised" % name, case, repr(e))
            continue
        acc.count("xcube_stat_evals")
        want_shape = scaffold + shape + trail
        if tuple(v.shape) != tuple(want_shape) or tuple(ok.shape) != tuple(want_shape):
            acc.violation("xcube:%s:shape" % name, case, "result shape %r / %r, expected extra extents %r + categories %r + %r" % (v.shape, ok.shape, scaffold, shape, trail))
            continue
        for fc in itertools.product(*[range(e) for e in scaffold]):
            sub = M.sub_dims(denses, fc)
            try:
                sv, sok = thunk(xcube([numpy.ascontiguousarray(s) for s in sub], interacting_shape=shape))
                sv, sok = numpy.asarray(sv), numpy.asarray(sok).astype(bool)
            except Exception as e:  # noqa
                acc.violation("xcube:%s:subcube-raised" % name, dict(case, block=list(fc)), repr(e))
                continue
            bv, bok = v[fc], ok[fc]
            if bv.shape != sv.shape or not numpy.array_equal(bok, sok) or not numpy.allclose(bv[sok].astype(float), sv[sok].astype(float), rtol=1e-9, atol=1e-12):
                acc.violation("xcube:%s:block" % name, dict(case, block=list(fc)), "block at extra coords %r: values %r validity %r; cube of the 1-D slices: %r / %r" % (
                    fc, bv.tolist(), bok.astype(int).tolist(), sv.tolist(), sok.astype(int).tolist()))
                break


def nontrivial(denses):
    for d in denses:
        if d.ndim > 1 and d.size:
            flat = d.reshape(d.shape[0], -1)
            cols = {tuple(flat[:, j].tolist()) for j in range(flat.shape[1])}
            if len(cols) > 1:
                return True
    return False


def run_block(family, p, acc):
    N, extras = CONFIGS[p["tier"]][p["ci"]]
    opts = [Q.dim_options(N, ex, E) for ex in extras]
    for combo in itertools.product(opts[0][p["a0"]:p["a1"]], *opts[1:]):
        denses = [d for d, c in combo]
        commons = [c for d, c in combo]
        base = {"N": N, "extras": extras, "data": [d.tolist() for d in denses], "commons": commons, "tier": p["tier"]}
        nt = nontrivial(denses)
        if commons == [c for c in commons if c == 0]:
            check_stats(denses, N, acc, base)     # the array cube does not depend on the common values: once per data
        for call in check(denses, commons, N, acc, base):
            acc.case((p["ci"], tuple(d.tobytes() for d in denses), tuple(commons), call), nontrivial=nt, outcome=(call[0], len(extras)), sample=lambda: dict(base, call=call))


def replay(case, site=None):
    from ..core import Acc

    acc = Acc(ID, [], stop_at_first=False)
    N, extras = case["N"], case["extras"]
    denses = [numpy.array(d, dtype=numpy.int64).reshape((N,) + tuple(ex)) for d, ex in zip(case["data"], extras)]
    if "stat" in case:
        check_stats(denses, N, acc, {"N": N, "extras": extras})
        for v in acc.violations:
            print("  %s :: %s" % (v["site"], v["detail"][:700]))
        return bool(acc.violations)
    call = (case["agg"], case["ignore"], c03._tupleize(case["weights"]), c03._tupleize(case["fact"]) if case["fact"] is not None else None)
    list(check(denses, case["commons"], N, acc, {"N": N, "extras": extras}, only_call=call))
    for v in acc.violations:
        print("  %s :: %s" % (v["site"], v["detail"][:700]))
    return bool(acc.violations)
