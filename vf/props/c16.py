"""C16: pooled evaluation is schedule-independent (sched engine)."""
import json
import multiprocessing
import sys
import time

from .. import conformance  # must be imported before the pools are patched
from .. import core, harness, sched

ID = "C16"
LEVEL = "model_checking"
EARLY_POOL_PATCH = True

# (harness, pool size, granularity, preemption bound)
PLAN = {
    "quick": [
        ("c3x1", 2, "line", 1), ("c22", 2, "line", 1), ("c3", 3, "line", 1),
        ("x3x1", 2, "line", 1), ("x22", 2, "line", 1), ("x3", 16, "line", 1),
        ("c3p", 2, "line", 1), ("x3p", 2, "line", 1), ("c3nt", 2, "line", 1),
        ("c3x1@reuse", 2, "line", 0), ("c22@reuse", 2, "line", 0),
        ("c3@afterint", 2, "line", 1), ("x3@afterint", 2, "line", 1), ("x3huge", 2, "line", 1), ("x2huge", 2, "line", 2),
        ("c8", 1, "line", 0), ("c8", 2, "line", 0), ("x8", 2, "line", 0),
        ("c3", 2, "instruction", 1), ("x3", 2, "instruction", 1),
        ("c3x1", 1, "line", 1),
        # scale (70 000 rows; 1 296 sub-cubes): the default schedule only (bound -1)
        ("x3big", 2, "line", -1), ("c3big", 2, "line", -1), ("x1300", 2, "line", -1), ("c1300", 3, "line", -1),
    ],
    "thorough": [
        (h, w, "line", 1) for h in ("c3x1", "c22", "c2x2", "c3", "x3x1", "x22", "x2x2", "x3") for w in (1, 2, 3, 4, 16)
    ] + [
        (h, w, "line", 1) for h in ("c3p", "x3p", "x2x2p", "c3z") for w in (2, 3)
    ] + [
        (h, 2, "instruction", 1) for h in ("c3p", "x3p")
    ] + [
        ("c8", 1, "line", 1), ("c8", 2, "line", 1), ("x8", 1, "line", 1), ("x8", 2, "line", 1),
    ] + [
        (h, 2, "instruction", 1) for h in ("c3x1", "c22", "c2x2", "c3", "x3x1", "x22", "x2x2", "x3")
    ] + [
        (h, 3, "instruction", 1) for h in ("c3", "x3")
    ] + [
        (h, 2, "line", 2) for h in ("c3", "c2x2", "x3", "x2x2")
    ] + [
        ("c3", 3, "line", 2), ("x3", 3, "line", 2),
    ] + [
        ("x3big", 2, "line", 0), ("c3big", 2, "line", 0), ("x1300", 2, "line", -1), ("c1300", 3, "line", -1), ("x1300", 16, "line", -1),
        ("c3x1@reuse", 2, "line", 1), ("c22@reuse", 3, "line", 1), ("c2x2@reuse", 2, "line", 1), ("c3@reuse", 2, "line", 1),
        ("c3@afterint", 2, "line", 2), ("x3@afterint", 2, "line", 2), ("c3@afterint", 3, "line", 1), ("x2x2@afterint", 2, "line", 1),
        ("x3huge", 2, "line", 2), ("x3huge", 3, "line", 1), ("x3huge", 2, "instruction", 1), ("x2huge", 2, "line", 2), ("x2huge", 2, "instruction", 2),
    ],
}
SHARDS = {"quick": 8, "thorough": 32}
FREE_RUNS = {"quick": 40, "thorough": 400}


def describe(tier):
    return {
        "rule": "for every (harness cube, pool size, granularity, preemption bound) in the plan: ALL schedules of the pooled fill tasks within the bound - a scheduling point at "
        "every LINE (or bytecode INSTRUCTION) event of catii code executed by a worker, free switch points when a worker asks for the next chunk or ends - are executed "
        "on the real cube code with fresh objects, and calculate()'s arrays are compared bit-for-bit (dtype, shape, bytes) with the serial evaluation. Harnesses: index "
        "and array cubes with 3-4 sub-cubes (3 columns x flat; 2x2 extra axes; two 2-column dimensions), 1-3 aggregates computed together incl. C18's. "
        "A state = a scheduling point reached; a transition = one scheduled step. Supplementary (sampling, reported separately): the same bodies under the real ThreadPool "
        "with a 1 microsecond switch interval.",
        "plan": [list(p) for p in PLAN[tier]],
        "assumptions": [
            "multiprocessing.pool.ThreadPool is replaced by a model of ThreadPool.map (chunking, FIFO chunks, all chunks finish, first recorded failure) that is checked against the real pool on recording task sets",
            "baton hand-offs order everything: genuinely parallel execution of GIL-releasing sections and opcode-internal windows are not modelled; the free-running pass samples them",
            "time.time()/perf_counter feed diagnostics only and are excluded from comparison",
        ],
    }


_expected = {}


def _change_first_dimension(cube):
    """In-place changes of the first index dimension of a cube that has already been evaluated: re-expression under another common value and one
    cell given another value (a cube holds its dimensions, not a snapshot)."""
    import numpy

    ix = cube.dims[0]
    ix.shift_common(next(v for v in (2, 1, 0) if v != ix.common))
    col = (0,) * (len(ix.shape) - 1)
    ix.update({(1,) + col: numpy.array([0], dtype=numpy.uint32), (0,) + col: numpy.array([1], dtype=numpy.uint32)})


def _run(hname, parallel, w=None):
    base = hname.split("@")[0]
    cube, funcs = harness.make(base, parallel=parallel, poolsize=w)
    if hname.endswith("@afterint"):
        # the SAME cube and function objects had an earlier evaluation cut short by the caller's interrupt callback (a passed deadline: it
        # raises for every worker that asks); the callback is then removed and the cube evaluated again
        def deadline_passed():
            raise StopIteration("deadline passed")

        cube.check_interrupt = deadline_passed
        try:
            cube.calculate(funcs)
        except StopIteration:
            pass
        cube.check_interrupt = None
    out = cube.calculate(funcs)
    if hname.endswith("@reuse"):
        # the SAME cube and function objects evaluated again after its first dimension was changed in place
        _change_first_dimension(cube)
        out = cube.calculate(funcs)
    return out


def expected(hname):
    if hname not in _expected:
        _expected[hname] = harness.freeze(_run(hname, False))
    return _expected[hname]


def body_for(hname, w):
    def body():
        return _run(hname, True, w)

    return body


def run_shard(args):
    hname, w, gran, bound, shard, nshards = args
    try:
        sched.patch_pools()
        sched.install(gran)
        exp = expected(hname)
        body = body_for(hname, w)
        stats = {}

        def check(s, out):
            if out[0] != "ok":
                return {"kind": "raised", "detail": "pooled calculate raised %r" % (out[1],)}
            got = harness.freeze(out[1])
            stats.setdefault("outputs", set()).add(hash(got))
            if got != exp:
                return {"kind": "differs", "detail": "pooled output %r != serial %r" % (harness.thaw_repr(got), harness.thaw_repr(exp))}
            return None

        # root execution (default schedule), twice: determinism of the harness under the scheduler
        s0, out0 = sched.execute(body, (), record_trace=True)
        s1, out1 = sched.execute(body, (), record_trace=True)
        if s0.points != s1.points or s0.trace != s1.trace or (out0[0] == "ok" and out1[0] == "ok" and harness.freeze(out0[1]) != harness.freeze(out1[1])):
            return {"error": "harness %s is not deterministic under the scheduler (two default runs differ: %d vs %d points)" % (hname, len(s0.points), len(s1.points))}
        viol = None
        if shard == 0:
            stats["executions"] = 1
            stats["points"] = len(s0.points)
            stats["max_points"] = len(s0.points)
            stats.setdefault("orders", set()).add(tuple(s0.task_completion_order))
            viol = check(s0, out0)
            if viol:
                viol.update(choices=list(s0.choices), preemptions=0)
        if viol is None:
            for i, pre in enumerate(sched.alternatives(s0, 0, bound)):
                if i % nshards != shard:
                    continue
                viol = sched.explore(body, check, bound, prefix=pre, stats=stats)
                if viol:
                    break
        if viol and viol.get("kind") != "diverged":
            # replay the failing schedule twice before believing it
            ra, oa = sched.execute(body, viol["choices"])
            rb, ob = sched.execute(body, viol["choices"])
            same = ra.points == rb.points and (oa[0] == ob[0]) and (oa[0] != "ok" or harness.freeze(oa[1]) == harness.freeze(ob[1]))
            if not same or ra.diverged or rb.diverged:
                return {"error": "schedule %r of %s did not replay identically" % (viol["choices"][:50], hname)}
        return {"stats": {"executions": stats.get("executions", 0), "points": stats.get("points", 0), "max_points": stats.get("max_points", 0),
                          "orders": len(stats.get("orders", ())), "orders_set": stats.get("orders", set()), "outputs": stats.get("outputs", set())},
                "violation": viol, "key": (hname, w, gran, bound), "root_points": len(s0.points)}
    except Exception:
        import traceback

        return {"error": traceback.format_exc()}


def free_running(tier):
    """Supplementary sampling pass: real ThreadPool, microsecond switch interval."""
    import multiprocessing.pool

    import catii.xcubes

    multiprocessing.pool.ThreadPool = conformance.REAL_POOL
    catii.xcubes.xcube.pool_class = conformance.REAL_POOL
    sched._rebind(conformance.REAL_POOL)
    old = sys.getswitchinterval()
    sys.setswitchinterval(1e-6)
    bad = []
    runs = 0
    try:
        names = [h for h in ("c3x1", "c22", "c2x2", "c3", "x3x1", "x22", "x2x2", "x3", "c3p", "x3p", "x2x2p")]
        sd = core.seed()
        names = names[sd % len(names):] + names[:sd % len(names)]
        for h in names:
            cube, funcs = harness.make(h, parallel=False)
            exp = harness.freeze(cube.calculate(funcs))
            for rep in range(FREE_RUNS[tier]):
                for w in (2, 4):
                    cube, funcs = harness.make(h, parallel=True, poolsize=w)
                    got = harness.freeze(cube.calculate(funcs))
                    runs += 1
                    if got != exp:
                        bad.append({"harness": h, "poolsize": w, "rep": rep})
        r2, b2 = parallel_kernels(tier)
        runs += r2
        bad.extend(b2)
    finally:
        sys.setswitchinterval(old)
    return runs, bad


def parallel_kernels(tier):
    """The GIL-releasing kernels running GENUINELY in parallel (the part the cooperative scheduler cannot interleave): (a) four real threads each
    merging large arrays through every kernel at once, each result compared with NumPy's set operation; (b) a 200 000-row cube with 12 sub-cubes on the real
    pool compared with its serial run.  Sampling; a kernel that keeps any state outside its arguments fails here with near certainty."""
    import threading

    import numpy

    import catii.set_operations as so
    from catii.ccubes import ccube
    from catii.iindexes import iindex

    bad = []
    runs = 0
    n = 400000
    base = numpy.arange(n, dtype=numpy.uint32)
    inputs = []
    for t in range(4):
        a = base[(base * (t + 3)) % 7 < 4].copy()
        b = base[(base * (t + 5)) % 11 < 6].copy()
        c = base[(base + t) % 13 < 2].copy()
        inputs.append((a, b, c))
    want = [(numpy.intersect1d(a, b, assume_unique=True), numpy.union1d(a, b), numpy.setdiff1d(a, b, assume_unique=True), numpy.union1d(numpy.union1d(a, b), c))
            for a, b, c in inputs]
    reps = 3 if tier == "quick" else 20
    errs = []

    def work(t):
        a, b, c = inputs[t]
        for rep in range(reps):
            try:
                got = (so.set_intersect_merge_np(a, b), so.set_union_merge_np(a, b), so.set_difference_merge_np(a, b), so.set_union_merge_many([a, b, c]))
                for name, g, w in zip(("intersect", "union", "difference", "union_many"), got, want[t]):
                    if g.shape != w.shape or not numpy.array_equal(g, w):
                        errs.append({"harness": "kernels-in-parallel", "poolsize": 4, "rep": rep, "kernel": name})
            except Exception as e:  # noqa
                errs.append({"harness": "kernels-in-parallel", "poolsize": 4, "rep": rep, "error": repr(e)})

    ths = [threading.Thread(target=work, args=(t,)) for t in range(4)]
    for th in ths:
        th.start()
    for th in ths:
        th.join()
    runs += 4 * reps
    bad.extend(errs[:3])
    # (b) a large cube on the real pool
    N = 200000
    r = numpy.arange(N, dtype=numpy.int64)
    d1 = ((r * 7 + r // 3) % 5 == 0).astype(numpy.int64) + ((r % 11) == 3).astype(numpy.int64)
    d2 = numpy.stack([((r * (k + 2) + k) % (k + 3) == 0).astype(numpy.int64) * (1 + (r % 2)) for k in range(12)], axis=1)
    i1, i2 = iindex.from_array(d1), iindex.from_array(d2)
    from catii import ffuncs

    w = (r % 5).astype(float)
    serial = ccube([i1, i2], interacting_shape=(3, 3))
    serial.parallel = False
    exp = harness.freeze(serial.calculate([ffuncs.ffunc_count(), ffuncs.ffunc_sum(w)]))
    for rep in range(2 if tier == "quick" else 10):
        cube = ccube([i1, i2], interacting_shape=(3, 3))
        cube.parallel = True
        cube.poolsize = 4
        got = harness.freeze(cube.calculate([ffuncs.ffunc_count(), ffuncs.ffunc_sum(w)]))
        runs += 1
        if got != exp:
            bad.append({"harness": "big-ccube-12-subcubes", "poolsize": 4, "rep": rep})
    return runs, bad


def main(tier, all_violations=False, t0=None):
    t0 = t0 or time.time()
    desc = describe(tier)
    # 1. conformance of the model pool (main process, before any fork; real threads end before we fork)
    conf = conformance.check_in_child(tier)
    if conf["mismatches"]:
        print("INFRASTRUCTURE: model pool does not conform to the real ThreadPool: %s" % conf["mismatches"][:3])
        return 2
    # 2. exploration
    ns = SHARDS[tier]
    tasks = [(h, w, g, b, k, ns) for (h, w, g, b) in PLAN[tier] for k in range(ns)]
    pool = multiprocessing.get_context("fork").Pool(min(core.NPROC, len(tasks)))
    per = {}
    viol = None
    try:
        for r in pool.imap(run_shard, tasks, chunksize=1):
            if "error" in r:
                print("INFRASTRUCTURE: %s" % r["error"])
                return 2
            st = per.setdefault(r["key"], {"executions": 0, "points": 0, "max_points": 0, "orders": set(), "outputs": set(), "root_points": r["root_points"]})
            st["executions"] += r["stats"]["executions"]
            st["points"] += r["stats"]["points"]
            st["max_points"] = max(st["max_points"], r["stats"]["max_points"])
            st["orders"] |= r["stats"]["orders_set"]
            st["outputs"] |= r["stats"]["outputs"]
            if r["violation"] and viol is None:
                viol = dict(r["violation"], harness=r["key"][0], poolsize=r["key"][1], granularity=r["key"][2], bound=r["key"][3])
                break
    finally:
        pool.terminate()
        pool.join()
    # 3. supplementary free-running pass (sampling; not the deciding step)
    fr_runs, fr_bad = (0, [])
    if viol is None:
        fr_runs, fr_bad = free_running(tier)
        if fr_bad:
            viol = {"kind": "free-running", "detail": "real ThreadPool run differs from serial: %r" % (fr_bad[:3],), "choices": [], "harness": fr_bad[0]["harness"], "poolsize": fr_bad[0]["poolsize"], "granularity": "free", "bound": -1}
    execs = sum(s["executions"] for s in per.values())
    points = sum(s["points"] for s in per.values())
    vacuous = [k for k, s in per.items() if k[1] > 1 and len(s["orders"]) <= 1]
    samples = [{"harness": k[0], "poolsize": k[1], "granularity": k[2], "bound": k[3], "executions": s["executions"], "points_in_default_schedule": s["root_points"],
                "distinct_task_completion_orders": len(s["orders"]), "distinct_outputs": len(s["outputs"])} for k, s in sorted(per.items())]
    cov = {
        "states": max(points, 1), "transitions": max(points, 1), "traces_validated_against_impl": conf["real_runs"],
        "samples": samples[:40] or [{"note": "no exploration"}],
        "schedules_explored": execs, "scheduling_points_visited": points, "exhaustive": viol is None, "bounds": {"plan": desc["plan"]},
        "rule": desc["rule"], "distinct_outputs_max": max([len(s["outputs"]) for s in per.values()] or [0]),
        "harnesses_with_a_single_completion_order": [list(k) for k in vacuous],
        "model_pool_conformance": {k: conf[k] for k in ("configs", "real_runs", "model_schedules")},
        "free_running_supplement": {"runs": fr_runs, "differences": len(fr_bad), "note": "sampling; not part of the exhaustive counts"},
        "evaluations": execs, "distinct_nontrivial": sum(1 for s in per.values() for _ in s["orders"]),
    }
    code = 0
    if viol:
        rec = {"property": ID, "site": "%s:%s" % (viol["harness"], viol["kind"]), "detail": viol["detail"][:3000],
               "case": {"harness": viol["harness"], "poolsize": viol["poolsize"], "granularity": viol["granularity"], "bound": viol["bound"], "choices": viol["choices"], "kind": viol["kind"]}}
        path = core.write_replay(ID, rec)
        print("harness=%s poolsize=%s granularity=%s preemptions=%s schedule=%s" % (viol["harness"], viol["poolsize"], viol["granularity"], viol.get("preemptions"), json.dumps(viol["choices"])[:300]))
        print("detail=%s" % viol["detail"][:800])
        print("VIOLATION property=%s replay=%s" % (ID, path))
        code = 1
    wall = time.time() - t0
    core.write_evidence(ID, tier, LEVEL, cov, desc["assumptions"], wall, 1 if viol else 0)
    print("%s tier=%s schedules=%d points=%d plan_entries=%d conformance_real_runs=%d free_runs=%d violations=%d wall=%.1fs" % (ID, tier, execs, points, len(per), conf["real_runs"], fr_runs, 1 if viol else 0, wall))
    return code


def replay(case, site=None):
    if case.get("kind") == "free-running":
        runs, bad = free_running("quick")
        print("free-running: %d runs, %d differences" % (runs, len(bad)))
        return bool(bad)
    sched.patch_pools()
    sched.install(case["granularity"])
    exp = expected(case["harness"])
    s, out = sched.execute(body_for(case["harness"], case["poolsize"]), case["choices"])
    if s.diverged:
        print("replay diverged: %s" % s.diverged)
        return False
    if out[0] != "ok":
        print("pooled calculate raised %r" % (out[1],))
        return True
    got = harness.freeze(out[1])
    print("serial  : %r" % (harness.thaw_repr(exp),))
    print("pooled  : %r" % (harness.thaw_repr(got),))
    return got != exp
