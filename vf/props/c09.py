"""C09: the merge kernels never index outside their buffers.

Deciding step: the same exhaustive pair/list enumeration as C08, run against a rebuild of the
working-tree .pyx with bounds checking switched on (every out-of-range memoryview access raises
IndexError).  Thorough adds an AddressSanitizer build of the unmodified source in a subprocess.
"""
import json
import os
import subprocess
import sys

from .. import build
from .. import kernels as K

ID = "C09"
LEVEL = "exploration"
VARIANT = "bc"


def describe(tier):
    import catii

    return {
        "rule": "same enumeration as C08 (all ordered pairs of subsets of a %d-value universe and of %r; all lists for the multi-way "
        "union) executed on the bounds-checked rebuild; monitor = IndexError from any kernel. Non-trivial: at least one operand "
        "empty, or a single-element operand, or overlapping ranges (the loops actually run). %s" % (
            K.LOW[tier], K.HIGH[tier], "The UNMODIFIED kernels are additionally run (in a child process) with every operand placed flush against inaccessible guard pages, before its first and after its last element, contiguous and as reversed views: accesses that do not go through a memoryview index (memcpy, pointer arithmetic) fault there. " + ("Thorough also runs the pairs under an ASan build of the unmodified .pyx." if tier == "thorough" else "")),
        "bounds": {"low_universe": K.LOW[tier], "high_universe": K.HIGH[tier], "build": getattr(catii, "_vf_build_info", {})},
        "exhaustive": True,
        "assumptions": [
            "only accesses through the typed memoryviews of the kernels are instrumented by the bounds-checked build; ASan (thorough) additionally sees raw heap accesses of the module",
            "accesses inside NumPy are trusted",
        ],
    }


def blocks(tier):
    bl = K.pair_blocks(tier) + K.many_blocks(tier) + K.run_blocks(tier) + K.block_blocks(tier) + [("manylong", {}), ("huge", {})]
    return [(f, dict(p, tier=tier)) for f, p in bl]


def _call(acc, site, case, thunk):
    try:
        thunk()
    except IndexError as e:
        acc.violation(site, case, "out-of-bounds access: %r" % (e,))
    except Exception:
        pass  # result/exception correctness is C08's business


def check_pair(A, B, acc, uname):
    import catii.set_operations as so

    case = {"u": uname, "A": A, "B": B}
    A, B = K.expand(A), K.expand(B)
    a, b = K.arr(A), K.arr(B)
    _call(acc, "oob:intersect", case, lambda: so.set_intersect_merge_np(a, b))
    _call(acc, "oob:union", case, lambda: so.set_union_merge_np(a, b))
    _call(acc, "oob:difference", case, lambda: so.set_difference_merge_np(a, b))
    sa, sb = K.strided(A), K.strided(B)
    _call(acc, "oob:intersect", dict(case, layout="strided"), lambda: so.set_intersect_merge_np(sa, sb))
    _call(acc, "oob:union", dict(case, layout="strided"), lambda: so.set_union_merge_np(sa, sb))
    _call(acc, "oob:difference", dict(case, layout="strided"), lambda: so.set_difference_merge_np(sa, sb))
    _call(acc, "oob:intersection-wrapper", case, lambda: so.intersection(a, b))
    _call(acc, "oob:union-wrapper", case, lambda: so.union(a, b))
    _call(acc, "oob:difference-wrapper", case, lambda: so.difference(a, b))


def check_many(lst, acc, fam):
    import catii.set_operations as so

    arrays = [K.arr(K.expand(x)) for x in lst]
    _call(acc, "oob:union_many", {"fam": fam, "arrays": [list(x) for x in lst]}, lambda: so.set_union_merge_many(arrays))


def run_block(family, p, acc):
    tier = p["tier"]
    if family == "runs":
        probes = K.probe_sets(tier)
        for A in K.run_sets(tier)[p["a0"]:p["a1"]]:
            for B in probes:
                check_pair(A, B, acc, "runs")
                check_pair(B, A, acc, "runs")
                acc.case(("runs", tuple(A), tuple(B)), nontrivial=True, outcome=("runs", K.overlapping(A, B)), sample=lambda: {"universe": "runs", "A": A, "B": B})
        return
    if family == "huge":
        for da, db in K.huge_pairs(tier):
            check_pair(da, db, acc, "blocked")
            check_pair(db, da, acc, "blocked")
            acc.case(("huge", da["pat"], da["n"], repr(db)), nontrivial=True, outcome=("huge", da["pat"]), sample=lambda: {"universe": "blocked", "A": da, "B": db})
        return
    if family == "manylong":
        for lst in K.many_long_lists(tier):
            check_many(lst, acc, "manylong")
            acc.case(("manylong", tuple(map(tuple, lst))), nontrivial=True, outcome=("manylong", len(lst)), sample=lambda: {"fam": "manylong", "arrays": lst})
        return
    if family == "blocked":
        descs = K.block_descs(tier)
        for da in descs[p["a0"]:p["a1"]]:
            for B in K.tiny_probes(K.expand(da)):
                check_pair(da, B, acc, "blocked")
                check_pair(B, da, acc, "blocked")
            for db in descs:
                check_pair(da, db, acc, "blocked")
                acc.case(("blocked", da["pat"], da["n"], db["pat"], db["n"]), nontrivial=True, outcome=("blocked", da["pat"], db["pat"]), sample=lambda: {"universe": "blocked", "A": da, "B": db})
        return
    if family == "pairs":
        uni = K.universes(tier)[p["u"]]
        n = 1 << len(uni)
        for ma in range(p["a0"], p["a1"]):
            A = K.subset(uni, ma)
            for mb in range(n):
                B = K.subset(uni, mb)
                check_pair(A, B, acc, p["u"])
                nt = (not A) or (not B) or len(A) == 1 or len(B) == 1 or K.overlapping(A, B)
                acc.case((p["u"], ma, mb), nontrivial=nt, outcome=(bool(A), bool(B), K.overlapping(A, B)), sample=lambda: {"universe": p["u"], "A": A, "B": B})
    else:
        for lst in K.many_lists(tier, p["fam"], p["n"]):
            check_many(lst, acc, p["fam"])
            acc.case((p["fam"], tuple(map(tuple, lst))), nontrivial=True, outcome=("many", len(lst)), sample=lambda: {"fam": p["fam"], "arrays": lst})


def post(tier, tot):
    import catii

    info = getattr(catii, "_vf_build_info", {})
    extra = {"bounds_checked_build": info}
    if not info.get("rewritten_directives") and not info.get("forced_global_boundscheck"):
        pass
    if not tot["violations"]:
        g = run_guard(tier)
        extra["guard_pages"] = {k: g.get(k) for k in ("calls", "ok")}
        if g.get("error"):
            return {"__error__": g["error"]}
        if not g["ok"]:
            tot["violations"].append({"property": ID, "site": "guard-page", "case": g["first_case"], "detail": g["detail"][:1500]})
    if tier == "thorough" and not tot["violations"]:
        r = run_asan(tier)
        extra["asan"] = {k: r[k] for k in ("pairs", "reports", "ok")}
        if r.get("error"):
            return {"__error__": r["error"]}
        if r["reports"]:
            tot["violations"].append({"property": ID, "site": "asan", "case": r["first_case"], "detail": r["first_report"][:1500]})
    return extra


GUARD_DRIVER = r"""
# Operands placed flush against PROT_NONE pages (before the first and after the last element): any read or write of the UNMODIFIED
# kernels that leaves an operand on either side - raw pointer arithmetic, memcpy, an index computed before its bounds test - faults.
import sys, json, mmap, ctypes, importlib.machinery, importlib.util
so_path, tier = sys.argv[1], sys.argv[2]
sys.path.insert(0, sys.argv[3])
import numpy
loader = importlib.machinery.ExtensionFileLoader("set_operations", so_path)
spec = importlib.util.spec_from_file_location("set_operations", so_path, loader=loader)
so = importlib.util.module_from_spec(spec); loader.exec_module(so)
from vf import kernels as K
PAGE = mmap.PAGESIZE
libc = ctypes.CDLL(None, use_errno=True)
libc.mprotect.argtypes = [ctypes.c_void_p, ctypes.c_size_t, ctypes.c_int]


class Guarded:
    def __init__(self, pages=2):
        self.m = mmap.mmap(-1, (pages + 2) * PAGE)
        addr = ctypes.addressof(ctypes.c_char.from_buffer(self.m))
        for off in (0, (pages + 1) * PAGE):
            if libc.mprotect(addr + off, PAGE, 0) != 0:
                raise OSError("mprotect failed")
        self.buf = numpy.frombuffer(self.m, dtype=numpy.uint32, count=pages * PAGE // 4, offset=PAGE)

    def place(self, vals, where, reverse):
        n = len(vals)
        v = self.buf[len(self.buf) - n:] if where == "end" else self.buf[:n]
        if reverse:
            v[:] = vals[::-1]
            return v[::-1]          # an ascending VIEW of descending storage: element 0 is the last word before the guard page
        v[:] = vals
        return v


GA, GB, GC = Guarded(), Guarded(), Guarded()
n = 0
kern = (so.set_intersect_merge_np, so.set_union_merge_np, so.set_difference_merge_np)
layouts = [(wa, ra, wb, rb) for wa in ("end", "start") for ra in (False, True) for wb in ("end", "start") for rb in (False, True)]


def run_pair(A, B, tag):
    global n
    for wa, ra, wb, rb in layouts:
        if (ra or rb) and (wa != wb):
            continue
        sys.stderr.write("CASE %s\n" % json.dumps({"u": tag, "A": A, "B": B, "place": [wa, ra, wb, rb]}))
        a, b = GA.place(A, wa, ra), GB.place(B, wb, rb)
        for fn in kern:
            try:
                fn(a, b)
            except Exception:
                pass
            n += 1


uni = K.universes(tier)["low"]
N = 1 << len(uni)
for ma in range(N):
    A = K.subset(uni, ma)
    for mb in range(N):
        run_pair(A, K.subset(uni, mb), "low")
for A in K.run_sets("quick")[::3]:
    for B in K.probe_sets("quick")[::5]:
        run_pair(A, B, "runs"); run_pair(B, A, "runs")
descs = K.block_descs("quick")
for da in descs[::2]:
    A = K.expand(da)
    for B in K.tiny_probes(A):
        run_pair(A, B, "blocked"); run_pair(B, A, "blocked")
    for db in descs[1::5]:
        run_pair(A, K.expand(db), "blocked")
for name, u, k in K.many_families(tier)[:2]:
    for nn in range(k + 1):
        for lst in K.many_lists(tier, name, nn):
            if len(lst) > 3:
                continue
            for where in ("end", "start"):
                sys.stderr.write("CASE %s\n" % json.dumps({"fam": name, "arrays": [list(x) for x in lst], "place": where}))
                arrs = [g.place(list(x), where, False) for g, x in zip((GA, GB, GC), lst)]
                try:
                    so.set_union_merge_many(arrs)
                except Exception:
                    pass
                n += 1
print("CALLS", n)
"""


def run_guard(tier):
    try:
        so, info = build.build("plain")
    except build.BuildError as e:
        return {"error": "plain build failed: %s" % e, "calls": 0, "ok": False}
    p = subprocess.run([sys.executable, "-c", GUARD_DRIVER, so, tier, build.VERIF], stdout=subprocess.PIPE, stderr=subprocess.PIPE, text=True)
    calls = 0
    for line in p.stdout.splitlines():
        if line.startswith("CALLS"):
            calls = int(line.split()[1])
    if p.returncode < 0:
        last = None
        for line in p.stderr.splitlines():
            if line.startswith("CASE "):
                last = line[5:]
        return {"calls": calls, "ok": False, "first_case": dict(json.loads(last) if last else {}, guard=True),
                "detail": "the unmodified kernels died with signal %d while operands sat flush against inaccessible pages: an access outside an operand" % (-p.returncode)}
    if p.returncode != 0:
        return {"error": "guard-page driver exited %d: %s" % (p.returncode, p.stderr[-1500:]), "calls": calls, "ok": False}
    return {"calls": calls, "ok": True}


ASAN_DRIVER = r"""
import sys, json, importlib.machinery, importlib.util
so_path, tier = sys.argv[1], sys.argv[2]
sys.path.insert(0, sys.argv[3])
import numpy
loader = importlib.machinery.ExtensionFileLoader("set_operations", so_path)
spec = importlib.util.spec_from_file_location("set_operations", so_path, loader=loader)
so = importlib.util.module_from_spec(spec); loader.exec_module(so)
from vf import kernels as K
n = 0
for uname, uni in K.universes(tier).items():
    N = 1 << len(uni)
    for ma in range(N):
        A = K.subset(uni, ma)
        for mb in range(N):
            B = K.subset(uni, mb)
            # fresh exact-size heap blocks so that ASan redzones sit right after the data
            a = numpy.array(A, dtype=numpy.uint32); b = numpy.array(B, dtype=numpy.uint32)
            sys.stderr.write("CASE %s\n" % json.dumps({"u": uname, "A": A, "B": B}))
            for fn in (so.set_intersect_merge_np, so.set_union_merge_np, so.set_difference_merge_np):
                try: fn(a, b)
                except Exception: pass
            n += 1
for name, uni, k in K.many_families(tier):
    for nn in range(k + 1):
        for lst in K.many_lists(tier, name, nn):
            sys.stderr.write("CASE %s\n" % json.dumps({"fam": name, "arrays": [list(x) for x in lst]}))
            try: so.set_union_merge_many([numpy.array(x, dtype=numpy.uint32) for x in lst])
            except Exception: pass
            n += 1
print("PAIRS", n)
"""


def run_asan(tier):
    try:
        so, info = build.build("asan")
    except build.BuildError as e:
        return {"error": "asan build failed: %s" % e, "pairs": 0, "reports": 0, "ok": False}
    rt = build.asan_runtime()
    env = dict(os.environ)
    env.update({
        "LD_PRELOAD": rt,
        "PYTHONMALLOC": "malloc",
        "ASAN_OPTIONS": "detect_leaks=0:halt_on_error=0:allocator_may_return_null=1:log_path=stderr",
    })
    # halt_on_error=0 needs -fsanitize-recover; we simply stop at the first report (process aborts)
    env["ASAN_OPTIONS"] = "detect_leaks=0:allocator_may_return_null=1"
    p = subprocess.run([sys.executable, "-c", ASAN_DRIVER, so, tier, build.VERIF], env=env, stdout=subprocess.PIPE, stderr=subprocess.PIPE, text=True)
    err = p.stderr
    pairs = 0
    for line in p.stdout.splitlines():
        if line.startswith("PAIRS"):
            pairs = int(line.split()[1])
    if "AddressSanitizer" in err:
        i = err.index("==ERROR") if "==ERROR" in err else err.index("AddressSanitizer")
        last_case = None
        for line in err[:i].splitlines():
            if line.startswith("CASE "):
                last_case = line[5:]
        return {"pairs": pairs, "reports": 1, "ok": False, "first_case": json.loads(last_case) if last_case else {}, "first_report": err[i:i + 3000]}
    if p.returncode != 0:
        return {"error": "asan driver exited %d: %s" % (p.returncode, err[-1500:]), "pairs": pairs, "reports": 0, "ok": False}
    return {"pairs": pairs, "reports": 0, "ok": True}


def replay(case, site=None):
    from ..core import Acc

    acc = Acc(ID, [], stop_at_first=False)
    if case.get("guard"):
        g = run_guard("quick")
        print("  guard-page run: %r" % ({k: g.get(k) for k in ("calls", "ok", "first_case", "detail")},))
        return not g.get("ok", False)
    if "arrays" in case:
        check_many(case["arrays"], acc, case.get("fam"))
    else:
        check_pair(case["A"], case["B"], acc, case.get("u"))
    for v in acc.violations:
        print("  %s %s :: %s" % (v["site"], v["case"], v["detail"]))
    return bool(acc.violations)
