"""C15: library-chosen common value is a most frequent value; equality is canonical (hist engine)."""
from .. import hist, histprop
from . import c06

ID = "C15"
LEVEL = "model_checking"
PAIRS = True


def describe(tier):
    d = c06.describe(tier)
    d["rule"] = ("same state graph as C06 (%s...) -- (a) after every library-chosen normalisation (shift_common(), append, filtered, collapsed, from_array without common) the "
                 "count of the common value in the dense model equals the maximum count; (b) every resulting state == the harness-built twin with the same (shape, common, "
                 "dense), both ways, and != returns exactly (not ==) without raising; after the search all pairs of reached states inside each shape bucket (neighbour pairs "
                 "where a bucket is large: same dense with different common, same common with dense differing in one cell, reflexive pairs with opposite insertion order) "
                 "satisfy a == b iff the triples coincide (and ALL pairs of the indexes of shape (3,), (4,), (3,2) over a small alphabet and every common); comparison with non-indexes is False. Plus (a) for from_array with the common omitted over every small array x "
                 "mapping (none, permutation, two many-to-one, all-to-one) x counts (None, exact), and for shift_common()/filtered/append/collapsed on every array of the larger shapes "
                 "(3,2), (4,2), (2,3), (5,), (4,) that the quick state graph does not contain; and for from_array on arrays of 1 000 .. 131 077 (thorough 2^20) cells whose winner is decided by the last 40%% of the cells." % d["rule"][:160])
    return d


def from_array_family(res, tier):
    """C15a for `building from an array without one`: every small array x mapping (none / permutation / many-to-one / all-to-one) x counts
    (None / exact) with the common value omitted: the chosen common must be a most frequent value of the (mapped) array."""
    import itertools

    import numpy

    from catii.iindexes import iindex

    from .. import models as M
    from . import c01

    viol = []
    n = 0
    shapes = [(k,) for k in range(1, 6)] + [(1, 2), (2, 2), (3, 2), (2, 3)]
    if tier == "thorough":
        shapes += [(6,), (4, 2), (3, 3)]
    embs = [(0, 1, 2, 3), (5, -1, 300, 7)]
    for sh in shapes:
        for a in M.all_arrays(sh, range(3)):
            for emb in embs:
                ea = numpy.array(emb[:3], dtype=numpy.int64)[a]
                # ONE tally per array, handed to every call below (an application tallies once and builds several indexes from it)
                shared_counts = {}
                for v in ea.flat:
                    shared_counts[int(v)] = shared_counts.get(int(v), 0) + 1
                for mk in c01.MAPPINGS:
                    mapping = c01.make_mapping(mk, emb)
                    for uc in (False, True):
                        counts = shared_counts if uc else None
                        n += 1
                        try:
                            idx = iindex.from_array(ea, counts=counts, mapping=dict(mapping) if mapping else None)
                        except Exception as e:  # noqa
                            continue  # C01 reports construction failures
                        dense = ea if mapping is None else numpy.vectorize(mapping.get, otypes=[numpy.int64])(ea)
                        if not hist.most_frequent_ok(dense, idx.common):
                            viol.append({"property": "C15", "site": "from_array:common-not-most-frequent", "op": {"op": "from_array", "array": ea.tolist(), "mapping": mk, "counts": uc},
                                         "detail": "from_array chose common %r for (mapped) array %r" % (idx.common, dense.tolist()), "state": hist.key_from_dense(numpy.zeros((0,), dtype=numpy.int64), 0), "depth": 0})
    return viol, {"from_array_option_cases": n}


def normalisation_family(res, tier):
    """C15a on shapes beyond the quick state graph: every array of shape (3,2), (4,2), (2,3), (3,3)* over {0,1} (and (3,2) over {0,1,2}) x every common:
    shift_common(), filtered(every mask), append(every split into top/bottom with every pair of commons), collapsed: the library-chosen common must be
    a most frequent value of the result (whose dense content must be right)."""
    import itertools

    import numpy

    from .. import models as M

    viol = []
    n = 0

    def bad(site, opd, detail):
        viol.append({"property": "C15", "site": site, "op": opd, "detail": detail, "state": hist.key_from_dense(numpy.zeros((0,), dtype=numpy.int64), 0), "depth": 0})

    def chk(idx, dense, site, opd):
        nonlocal n
        n += 1
        try:
            got = M.read_dense(idx)
        except Exception:
            return  # malformed results are C07's business
        if got.tolist() != dense.tolist():
            return  # wrong content is C06's business
        if not hist.most_frequent_ok(dense, idx.common):
            bad(site, opd, "library chose common %r for %r" % (idx.common, dense.tolist()))

    spaces = [((3, 2), (0, 1)), ((4, 2), (0, 1)), ((2, 3), (0, 1)), ((3, 2), (0, 1, 2)), ((5,), (0, 1)), ((4,), (0, 1, 2))]
    if tier == "thorough":
        spaces += [((3, 3), (0, 1)), ((5, 2), (0, 1)), ((6,), (0, 1, 2))]
    for shape, vals in spaces:
        for a in M.all_arrays(shape, vals):
            for c0 in (0, 1, 2, 3):
                opd0 = {"op": "normalise", "array": a.tolist(), "common": c0}
                try:
                    ix = M.build_index(a, c0)
                    ix.shift_common()
                    chk(ix, a, "shift_common:common-not-most-frequent", dict(opd0, step="shift_common()"))
                    for bits in itertools.product((False, True), repeat=shape[0]):
                        mask = numpy.array(bits, dtype=bool)
                        r = M.build_index(a, c0).filtered(mask, int(mask.sum()))
                        chk(r, a[mask], "filtered:common-not-most-frequent", dict(opd0, step="filtered", mask=[bool(b) for b in bits]))
                    if c0 < 2:
                        for k in range(0, shape[0] + 1):
                            for c1 in (0, 1, 3):
                                top = M.build_index(a[:k], c0)
                                top.append(M.build_index(a[k:], c1))
                                chk(top, a, "append:common-not-most-frequent", dict(opd0, step="append", split=k, other_common=c1))
                    if len(shape) == 2 and c0 < 3:
                        for prec in ((0, 1), (1, 0), (1, 2, 0), (2, 0)):
                            r = M.build_index(a, c0).collapsed(list(prec))
                            exp = numpy.array([next((p for p in prec if p in set(int(x) for x in a[i])), prec[-1]) for i in range(shape[0])], dtype=numpy.int64)
                            chk(r, exp, "collapsed:common-not-most-frequent", dict(opd0, step="collapsed", precedence=list(prec)))
                except Exception as e:  # noqa
                    continue  # exceptions are C06's business
    return viol, {"normalisation_cases_on_larger_shapes": n}


def equality_family(res, tier):
    """C15b beyond the quick state graph's two rows: EVERY pair of indexes of shape (3,), (4,) over three values and (3, 2) over two, every common value
    (so: equal key sets whose row ids are distributed differently, equal concatenations, one entry moved ...): a == b iff the triples coincide."""
    from .. import models as M

    keys = []
    for shape, vals, commons in (((3,), (0, 1, 2), (0, 1, 2, 3)), ((4,), (0, 1, 2), (0, 1, 3)), ((3, 2), (0, 1), (0, 1, 2))):
        for a in M.all_arrays(shape, vals):
            for c in commons:
                keys.append(hist.key_from_dense(a, c))
    viol, n = hist.pair_checks(keys, "quick")
    return viol, {"equality_pairs_on_three_and_four_row_indexes": n}


def scale_family(res, tier):
    import itertools

    """C15a at scale: arrays of 65 536 x k + r cells whose most frequent value is decided by the LAST cells (blockwise or sampled counting must not
    miss the tail), 1-D and 2-D, with and without a mapping / exact counts."""
    import numpy

    from catii.iindexes import iindex

    viol = []
    n = 0
    sizes = [1000, 65535, 65536, 65537, 70000, 110000, 131072 + 5]
    if tier == "thorough":
        sizes += [262144 + 77, 1 << 20]
    for size in sizes:
        head = min(size, (size * 3) // 5)
        for shape in ((size,), (size // 100, 100) if size % 100 == 0 else None):
            if shape is None:
                continue
            a = numpy.empty(size, dtype=numpy.int64)
            # the head: mostly 1; the tail: only 0 -> overall 0 wins narrowly when the tail is counted
            a[:head] = numpy.where(numpy.arange(head) % 5 < 3, 1, 2)      # 60% ones, 40% twos in the head
            a[head:] = 0                                                   # 40% of all cells
            # counts: ones = 0.36, twos = 0.24, zeros = 0.40 of the size -> 0 is the strict winner
            for dt in (numpy.int64, numpy.uint8):
                arr = a.astype(dt).reshape(shape)
                for mk, mapping in (("none", None), ("identity+", {0: 0, 1: 1, 2: 2, 9: 9})):
                    for uc in (False, True):
                        counts = None
                        if uc:
                            v, c = numpy.unique(arr, return_counts=True)
                            counts = dict(zip(v.tolist(), c.tolist()))
                        n += 1
                        try:
                            idx = iindex.from_array(arr, counts=counts, mapping=dict(mapping) if mapping else None)
                        except Exception:  # noqa
                            continue
                        if not hist.most_frequent_ok(arr.astype(numpy.int64), idx.common):
                            viol.append({"property": "C15", "site": "from_array:common-not-most-frequent", "op": {"op": "from_array-scale", "size": size, "shape": list(shape), "dtype": numpy.dtype(dt).name, "mapping": mk, "counts": uc},
                                         "detail": "from_array chose common %r for an array of %d cells in which 0 is the strict winner" % (idx.common, size), "state": hist.key_from_dense(numpy.zeros((0,), dtype=numpy.int64), 0), "depth": 0})
    # five or more distinct values (the second construction strategy), ONE tally handed to two successive calls
    from . import c01

    for cfg in c01.rowscan_configs(tier):
        if int(numpy.prod(cfg["shape"])) > 200:
            continue
        e7 = c01.ROWSCAN_EMBS[0]
        for a, cells, vals in itertools.islice(c01.rowscan_arrays(tuple(cfg["shape"]), cfg["k"], e7, cfg["dup"]), 0, None, 3):
            tally = {}
            for v in a.flat:
                tally[int(v)] = tally.get(int(v), 0) + 1
            ident = {v: v for v in e7}
            for step, mapping in (("first", None), ("second", None), ("third", ident)):
                n += 1
                try:
                    idx = iindex.from_array(a, counts=tally, mapping=dict(mapping) if mapping else None)
                except Exception:  # noqa
                    continue
                if not hist.most_frequent_ok(a, idx.common):
                    viol.append({"property": "C15", "site": "from_array:common-not-most-frequent", "op": {"op": "from_array-scale", "rowscan": cfg["shape"], "cells": list(cells), "values": [int(v) for v in vals], "call": step},
                                 "detail": "the %s from_array over one shared tally chose common %r; the array holds %d x %r" % (step, idx.common, int((a == e7[0]).sum()), e7[0]), "state": hist.key_from_dense(numpy.zeros((0,), dtype=numpy.int64), 0), "depth": 0})
    return viol, {"from_array_scale_cases": n}


def extras(res, tier):
    return [from_array_family, normalisation_family, equality_family, scale_family]


def main(tier, all_violations=False, t0=None):
    return histprop.run(__import__("vf.props.c15", fromlist=["x"]), tier, all_violations, t0, extra=extras)


def replay(case, site=None):
    return histprop.replay(case)
