"""C15: library-chosen common value is a most frequent value; equality is canonical (hist engine)."""
from .. import hist, histprop
from . import c06

ID = "C15"
LEVEL = "model_checking"
PAIRS = True


def describe(tier):
    d = c06.describe(tier)
    d["rule"] = ("same state graph as C06 (%s...) -- (a) after every library-chosen normalisation (shift_common(), append, filtered, collapsed, from_array without common) the "
                 "count of the common value in the dense model equals the maximum count; (b) every resulting state == the harness-built twin with the same (shape, common, "
                 "dense), both ways, and != returns exactly (not ==) without raising; after the search all pairs of reached states inside each shape bucket (neighbour pairs "
                 "where a bucket is large: same dense with different common, same common with dense differing in one cell, reflexive pairs with opposite insertion order) "
                 "satisfy a == b iff the triples coincide; comparison with non-indexes is False." % d["rule"][:160])
    return d


def main(tier, all_violations=False, t0=None):
    return histprop.run(__import__("vf.props.c15", fromlist=["x"]), tier, all_violations, t0)


def replay(case, site=None):
    return histprop.replay(case)
