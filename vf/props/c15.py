"""C15: library-chosen common value is a most frequent value; equality is canonical (hist engine)."""
from .. import hist, histprop
from . import c06

ID = "C15"
LEVEL = "model_checking"
PAIRS = True


def describe(tier):
    d = c06.describe(tier)
    d["rule"] = ("same state graph as C06 (%s...) -- (a) after every library-chosen normalisation (shift_common(), append, filtered, collapsed, from_array without common) the "
                 "count of the common value in the dense model equals the maximum count; (b) every resulting state == the harness-built twin with the same (shape, common, "
                 "dense), both ways, and != returns exactly (not ==) without raising; after the search all pairs of reached states inside each shape bucket (neighbour pairs "
                 "where a bucket is large: same dense with different common, same common with dense differing in one cell, reflexive pairs with opposite insertion order) "
                 "satisfy a == b iff the triples coincide; comparison with non-indexes is False. Plus (a) for from_array with the common omitted over every small array x "
                 "mapping (none, permutation, two many-to-one, all-to-one) x counts (None, exact)." % d["rule"][:160])
    return d


def from_array_family(res, tier):
    """C15a for `building from an array without one`: every small array x mapping (none / permutation / many-to-one / all-to-one) x counts
    (None / exact) with the common value omitted: the chosen common must be a most frequent value of the (mapped) array."""
    import itertools

    import numpy

    from catii.iindexes import iindex

    from .. import models as M
    from . import c01

    viol = []
    n = 0
    shapes = [(k,) for k in range(1, 6)] + [(1, 2), (2, 2), (3, 2), (2, 3)]
    if tier == "thorough":
        shapes += [(6,), (4, 2), (3, 3)]
    embs = [(0, 1, 2, 3), (5, -1, 300, 7)]
    for sh in shapes:
        for a in M.all_arrays(sh, range(3)):
            for emb in embs:
                ea = numpy.array(emb[:3], dtype=numpy.int64)[a]
                for mk in c01.MAPPINGS:
                    mapping = c01.make_mapping(mk, emb)
                    for uc in (False, True):
                        counts = None
                        if uc:
                            counts = {}
                            for v in ea.flat:
                                counts[int(v)] = counts.get(int(v), 0) + 1
                        n += 1
                        try:
                            idx = iindex.from_array(ea, counts=counts, mapping=dict(mapping) if mapping else None)
                        except Exception as e:  # noqa
                            continue  # C01 reports construction failures
                        dense = ea if mapping is None else numpy.vectorize(mapping.get, otypes=[numpy.int64])(ea)
                        if not hist.most_frequent_ok(dense, idx.common):
                            viol.append({"property": "C15", "site": "from_array:common-not-most-frequent", "op": {"op": "from_array", "array": ea.tolist(), "mapping": mk, "counts": uc},
                                         "detail": "from_array chose common %r for (mapped) array %r" % (idx.common, dense.tolist()), "state": hist.key_from_dense(numpy.zeros((0,), dtype=numpy.int64), 0), "depth": 0})
    return viol, {"from_array_option_cases": n}


def main(tier, all_violations=False, t0=None):
    return histprop.run(__import__("vf.props.c15", fromlist=["x"]), tier, all_violations, t0, extra=from_array_family)


def replay(case, site=None):
    return histprop.replay(case)
