"""C17: aggregations are pure - inputs untouched, no hidden state between calls (hist + calls engines)."""
import itertools
import json
import multiprocessing
import time

import numpy

from .. import calls, core, harness, hist
from .. import models as M

ID = "C17"
LEVEL = "model_checking"

PLAN = {
    "quick": dict(depth1_sel=2, depth1_triples=["count", "count_wA", "sum_A", "mean_A", "valid_count_A", "stddev_A", "quantile_A"], depth2_sel=1, depth3=False),
    "thorough": dict(depth1_sel=3, depth1_triples=None, depth2_sel=2, depth3=True),
}


def describe(tier):
    p = PLAN[tier]
    return {
        "rule": "(a) index methods: every transition of the C06 state graph (BFS to fixpoint) checks that the receiver of every non-mutating method and every argument (masks, "
        "mappings, precedence lists, order lists, partner indexes, entry dicts) is byte-identical afterwards. (b) aggregates: a fixed population of 3 index cubes, 3 array cubes (two of each with the same output shape over different data) plus one of each with a different row count, "
        " 17 + 39 aggregate-function objects (every class in up to four parameterisations, with and without weights: real numbers hidden under False validity with NaN-marked weights missing on a valid row; NaN-marked facts with (values, validity) weights hiding 1e300) and their caller-owned arrays (facts, validity arrays, values hidden under False validity, weights, dimension arrays, "
        "index entries, tuples, dimension lists); event = cube.calculate(every ordered selection of 1..%d function objects%s) or a shortcut method; BFS over call histories (consecutive events sharing a cube or a function object - hidden state can only travel through a shared object) "
        "to depth %d with the visited set keyed by a hash of the ENTIRE reachable object state (diagnostic counters excluded). On every transition: returned arrays == each "
        "aggregate evaluated alone on fresh objects, bit for bit; caller-owned arguments byte-identical. (c) cube construction leaves its dimension list and arrays untouched." % (
            p["depth1_sel"], "" if p["depth1_triples"] is None else " (triples over a 7-function subset)", 3 if p["depth3"] else 2),
        "assumptions": [
            "the write-only diagnostics (ffunc.tracing, xcube._tracing, ccube.intersection_data_points) are excluded from the state hash; that they never feed an output is supported dynamically: "
            "at depth >= 2 they differ between histories while every output still equals the fresh evaluation",
            "if the state hash never changes, every event is a self-loop and the depth-1 result decides all histories over the alphabet by induction; depth 2/3 is explored regardless",
        ],
    }


def depth1_events(tier):
    p = PLAN[tier]
    evs = calls.events(p["depth1_sel"])
    if p["depth1_triples"] is not None and p["depth1_sel"] < 3:
        evs += [e for e in calls.events(3, func_subset=set(p["depth1_triples"])) if e[0] == "calc" and len(e[2]) == 3]
    return evs


def run_hist_shard(hists):
    out = {"viol": [], "hashes": set(), "changed": 0, "events": 0, "h0": None}
    try:
        for h in hists:
            viol, hfinal, changed, h0 = calls.run_history(list(h))
            out["events"] += len(h)
            out["hashes"].add(hfinal)
            out["h0"] = h0
            if changed:
                out["changed"] += 1
            for kind, i, detail in viol:
                out["viol"].append({"site": "calls:" + kind, "history": [list(map(lambda x: list(x) if isinstance(x, tuple) else x, e)) for e in h], "at": i, "detail": detail})
                break
    except Exception:
        import traceback

        out["error"] = traceback.format_exc()
    return out


def construction_checks():
    """(c): ccube(dims)/xcube(dims) leave their arguments untouched, incl. list inputs."""
    from catii.ccubes import ccube
    from catii.xcubes import xcube

    viol = []
    d0 = numpy.array([[0, 1], [1, 1], [0, 0]], dtype=numpy.int64)
    d1 = numpy.array([0, 1, 1], dtype=numpy.int64)
    for shape in (None, (3, 3)):
        ix = [M.build_index(d0, 1), M.build_index(d1, 0)]
        keys = [hist.key_of(i) for i in ix]
        lst = list(ix)
        ccube(lst, interacting_shape=shape)
        if lst != ix or any(a is not b for a, b in zip(lst, ix)) or [hist.key_of(i) for i in ix] != keys:
            viol.append({"site": "construct:ccube", "history": [], "at": 0, "detail": "ccube(dims) changed its dimension list or an index"})
        arrs = [d0.copy(), d1.copy(), [0, 1, 1]]
        snap = [numpy.array(a).tobytes() for a in arrs]
        lst = list(arrs)
        xcube(lst, interacting_shape=(3, 3, 3) if shape else None)
        if any(a is not b for a, b in zip(lst, arrs)) or [numpy.array(a).tobytes() for a in arrs] != snap or arrs[2] != [0, 1, 1]:
            viol.append({"site": "construct:xcube", "history": [], "at": 0, "detail": "xcube(dims) changed its dimension list or an array"})
    return viol


def from_array_purity(tier):
    """from_array(values, counts, common, mapping) leaves the array, the caller's counts dict and the mapping untouched - on both construction
    strategies (small arrays; sparse arrays with 5+ distinct values) and with every option."""
    from catii.iindexes import iindex

    from . import c01

    viol = []
    n = 0

    def one(a, common, counts, mapping, opd):
        nonlocal n
        n += 1
        a0, c0, m0 = a.copy(), (dict(counts) if counts is not None else None), (dict(mapping) if mapping is not None else None)
        order0 = list(counts) if counts is not None else None
        try:
            kw = {} if common is None else {"common": common}
            iindex.from_array(a, counts=counts, mapping=mapping, **kw)
        except Exception:
            return
        if not numpy.array_equal(a, a0):
            viol.append({"site": "index:from_array:array-modified", "detail": "the input array changed", "case": {"part": "from_array", "op": opd}})
        if counts is not None and (counts != c0 or list(counts) != order0):
            viol.append({"site": "index:from_array:counts-modified", "detail": "the caller's counts changed from %r to %r" % (c0, counts), "case": {"part": "from_array", "op": opd}})
        if mapping is not None and mapping != m0:
            viol.append({"site": "index:from_array:mapping-modified", "detail": "the caller's mapping changed from %r to %r" % (m0, mapping), "case": {"part": "from_array", "op": opd}})

    def countsof(a):
        c = {}
        for v in a.flat:
            c[int(v)] = c.get(int(v), 0) + 1
        return c

    emb = (0, 1, 2, 3)
    for sh in [(k,) for k in range(1, 5)] + [(2, 2), (3, 2)]:
        for a in M.all_arrays(sh, range(3)):
            for mk in c01.MAPPINGS:
                mapping = c01.make_mapping(mk, emb)
                for common in (None, 0, 3):
                    cm = common if (common is None or not mapping) else mapping.get(common, common)
                    one(a.copy(), cm, countsof(a), dict(mapping) if mapping else None, {"array": a.tolist(), "mapping": mk, "common": cm})
    for cfg in c01.rowscan_configs(tier):
        if int(numpy.prod(cfg["shape"])) > 1000:
            continue
        e7 = c01.ROWSCAN_EMBS[0]
        for a, cells, vals in itertools.islice(c01.rowscan_arrays(tuple(cfg["shape"]), cfg["k"], e7, cfg["dup"]), 0, None, 5):
            many = {v: v for v in e7}
            many[e7[2]] = e7[1]
            for mapping in (None, many):
                for common in (None, e7[0], e7[6]):
                    one(a.copy(), common, countsof(a), dict(mapping) if mapping else None, {"rowscan": cfg["shape"], "cells": list(cells), "values": [int(v) for v in vals], "mapping": bool(mapping), "common": common})
    return viol, n


def main(tier, all_violations=False, t0=None):
    t0 = t0 or time.time()
    desc = describe(tier)
    p = PLAN[tier]
    # (a) index part on the hist graph
    res = hist.search(tier, prop="C17")
    if "error" in res:
        print("INFRASTRUCTURE: %s" % res["error"])
        return 2
    viol = []
    for v in res["violations"]:
        if v["property"] == "C17":
            init, ops = hist.path_to(res["parent"], v["state"])
            viol.append({"site": "index:" + v["site"], "detail": v["detail"], "case": {"initial": hist.describe_key(init), "history": ops, "state": hist.describe_key(v["state"]), "op": v["op"], "tier": tier, "part": "index"}})
    others = sum(1 for v in res["violations"] if v["property"] != "C17")
    # (a') operands of the entry-wise updates in every representation, wide / tall indexes
    from .. import bigops

    bv, bc = bigops.family(None, tier, "C17")
    for v in bv:
        viol.append({"site": "index:" + v["site"], "detail": v["detail"], "case": {"part": "index", "op": v["op"], "state": None, "tier": tier}})
    fv, fn = from_array_purity(tier)
    viol.extend(fv)
    pv, pn = calls.poke_checks()
    for v in pv:
        viol.append({"site": v["site"], "detail": v["detail"], "case": {"part": "poke", "history": v["history"], "at": v["at"]}})
    # (c)
    for v in construction_checks():
        viol.append({"site": v["site"], "detail": v["detail"], "case": {"part": "construct"}})
    # (b) calls engine
    ev1 = depth1_events(tier)
    red = calls.events(p["depth2_sel"]) if p["depth2_sel"] == 1 else calls.events(p["depth2_sel"]) + [e for e in calls.events(1) if e[1] in ("cC", "xC")]
    small = calls.events(1)
    def share(a, b):
        """Hidden state can only travel through a shared object: the same cube, or the same function object on cubes of one type."""
        if a[1] == b[1]:
            return True
        return a[0] == "calc" and b[0] == "calc" and a[1][0] == b[1][0] and bool(set(a[2]) & set(b[2]))

    hists = [(e,) for e in ev1]
    hists += [(a, b) for a in red for b in red if share(a, b)]
    if p["depth3"]:
        hists += [(a, b, c) for a in small for b in small if share(a, b) for c in small if share(b, c) or share(a, c)]
    nshards = 64
    shards = [hists[i::nshards] for i in range(nshards)]
    pool = multiprocessing.get_context("fork").Pool(min(core.NPROC, nshards))
    hashes = set()
    changed = 0
    nevents = 0
    h0 = None
    try:
        for r in pool.imap(run_hist_shard, shards):
            if "error" in r:
                print("INFRASTRUCTURE: %s" % r["error"])
                return 2
            hashes |= r["hashes"]
            changed += r["changed"]
            nevents += r["events"]
            h0 = r["h0"] or h0
            for v in r["viol"]:
                viol.append({"site": v["site"], "detail": v["detail"], "case": {"part": "calls", "history": v["history"], "at": v["at"]}})
    finally:
        pool.terminate()
        pool.join()
    if h0:
        hashes.add(h0)
    viol.sort(key=lambda v: (len(json.dumps(v["case"])), v["site"]))
    if all_violations:
        groups = {}
        for v in viol:
            groups.setdefault(v["site"], []).append(v)
        for sname, vs in sorted(groups.items()):
            print("GROUP site=%s n=%d first=%s :: %s" % (sname, len(vs), json.dumps(vs[0]["case"])[:400], vs[0]["detail"][:400]))
    code = 0
    if viol:
        v = viol[0]
        path = core.write_replay(ID, {"property": ID, "site": v["site"], "detail": v["detail"][:3000], "case": v["case"]})
        print("site=%s case=%s" % (v["site"], json.dumps(v["case"])[:600]))
        print("detail=%s" % v["detail"][:800])
        print("VIOLATION property=%s replay=%s" % (ID, path))
        code = 1
    sd = core.seed()
    samples = [{"call_history": [list(map(lambda x: list(x) if isinstance(x, tuple) else x, e)) for e in hists[(sd * 7919 + i * 104729) % len(hists)]]} for i in range(3)]
    cov = {
        "states": res["states"] + len(hashes), "transitions": res["transitions"] + nevents, "traces_validated_against_impl": res["transitions"] + nevents,
        "samples": samples, "index_graph": {"states": res["states"], "transitions": res["transitions"], "fixpoint_reached": not res["capped"]},
        "call_histories": len(hists), "call_events_executed": nevents, "distinct_object_state_hashes": len(hashes), "histories_that_changed_the_state_hash": changed,
        "every_event_is_a_self_loop": len(hashes) <= 1, "depth": 3 if p["depth3"] else 2, "event_alphabet_depth1": len(ev1), "event_alphabet_depth2": len(red),
        "rule": desc["rule"], "exhaustive": True, "violations_of_other_properties_on_the_index_graph": others,
        "evaluations": res["transitions"] + nevents, "distinct_nontrivial": len(hists),
    }
    wall = time.time() - t0
    core.write_evidence(ID, tier, LEVEL, cov, desc["assumptions"], wall, len(viol))
    print("%s tier=%s index_states=%d index_transitions=%d call_histories=%d call_events=%d object_state_hashes=%d changed=%d violations=%d wall=%.1fs" % (
        ID, tier, res["states"], res["transitions"], len(hists), nevents, len(hashes), changed, len(viol), wall))
    return code


def replay(case, site=None):
    from .. import histprop

    if case.get("part") == "index":
        return histprop.replay(case)
    if case.get("part") == "poke":
        pv, pn = calls.poke_checks()
        hits = [v for v in pv if v["history"] == case["history"]]
        for v in hits:
            print("  %s :: %s" % (v["site"], v["detail"][:500]))
        return bool(hits)
    if case.get("part") == "from_array":
        fv, fn = from_array_purity("quick")
        hits = [v for v in fv if v["case"]["op"] == case["op"]]
        for v in hits:
            print("  %s :: %s" % (v["site"], v["detail"][:400]))
        return bool(hits)
    if case.get("part") == "construct":
        v = construction_checks()
        print(v)
        return bool(v)
    h = [tuple(tuple(x) if isinstance(x, list) else x for x in e) for e in case["history"]]
    viol, hfinal, changed, h0 = calls.run_history(h)
    for kind, i, detail in viol:
        print("  %s at event %d :: %s" % (kind, i, detail[:800]))
    return bool(viol)
