"""C01: array -> inverted index -> array is lossless, for every construction/read-back option."""
import itertools

import numpy

from .. import models as M
from .c19 import oracle as dtype_oracle

ID = "C01"
LEVEL = "exploration"

# embeddings of the abstract alphabet {0,1,2} plus a fourth "absent" value
EMB_QUICK = [
    (0, 1, 2, 3),
    (0, 255, 256, 7),
    (65535, 65536, 1, 0),
    (-1, 0, 5, -7),
    (-129, 127, 128, 0),
    (-1, 128, 127, 0),                  # a negative value next to a maximum exactly on a signed-width boundary
    (32768, -1, 5, 32767),
    (0, 1, 2, 2 ** 32),                 # absent common beyond uint32
    (2, 1, 0, 2 ** 32 - 1),
    (2 ** 40, 3, -5, 2 ** 32 - 1),
    (2 ** 62, -(2 ** 62), 0, 1),
    (2 ** 63 - 2, -(2 ** 63), 1, 0),
]
EMB_THOROUGH = EMB_QUICK + [
    (3, 2, 1, 0),
    (254, 255, 256, 257),
    (-128, -129, 127, 128),
    (32767, 32768, -32768, -32769),
    (-(2 ** 31), -(2 ** 31) - 1, -1, 0),
    (2 ** 33, 2 ** 33 + 1, 2 ** 63 - 2, 0),
    (4, 2 ** 63 - 2, 2 ** 62, 2 ** 61),
]

U64_ONLY = set()

SHAPES_QUICK = [(n,) for n in range(0, 5)] + [(n, 1) for n in range(0, 4)] + [(n, 2) for n in range(0, 3)]
SHAPES_THOROUGH = SHAPES_QUICK + [(5,), (3, 2), (2, 3), (0, 3)]

COMMONS = ["omit", 0, 1, 2, 3]          # abstract index into the embedding; 3 = absent from the data
MAPPINGS = ["none", "perm", "many1", "many2", "allone"]
READBACK = ["default", "int64", "minimal", "map", "map+int64", "map-many"]


def describe(tier):
    emb = EMB_QUICK if tier == "quick" else EMB_THOROUGH
    sh = SHAPES_QUICK if tier == "quick" else SHAPES_THOROUGH
    return {
        "rule": "small family: every array of every shape in %r over the abstract alphabet {0,1,2} under every embedding in %r (4th value = absent), "
        "input dtype {int64, minimal}, common in {omitted, each value, absent}, counts in {None, exact dict}, mapping in {none, permutation, two "
        "many-to-one maps, all-to-one}, read-back in {default dtype, int64, minimal explicit dtype, injective value mapping with negative targets "
        "(default dtype / int64)}. Row-scan family: 1-D N in {80,100} and 2-D (40,3),(60,2) with one dominant value and k in {4,5,6} other cells at every "
        "k-subset of 6 slots with distinct (and one duplicated) values, same options; line coverage confirms the row-scan branch ran. "
        "Layout family: Fortran-ordered, strided, reversed and uint64 inputs and zero-column shapes. Oracle: output == (mapped) input element-wise and in shape. Non-trivial: >= 2 distinct values present and at least one option not default. "
        "Preconditions: an empty array needs a common value or a mapping." % (sh, [tuple(str(x) for x in e) for e in emb]),
        "bounds": {"embeddings": len(emb), "shapes": [list(s) for s in sh]},
        "exhaustive": True,
        "assumptions": [
            "non-negative data values in [2^31, 2^33) are used in a handful of cases only (from_array runs numpy.bincount over a 16 GiB zero array there: correct, ~4 s per call); "
            "2^33..2^63-2 cover the 'huge value' path; the uint32/uint64 boundary of the dense output is reached through an absent common and through mappings",
            "INT64_MAX itself is not used as a data value: numpy.bincount(2^63-1) overflows inside NumPy (returns an empty array and corrupts the heap), which is not catii's code",
            "explicit minimal dtype is chosen to contain the expected values and the caller's common value",
        ],
    }


def make_mapping(kind, emb):
    v0, v1, v2, v3 = emb
    if kind == "none":
        return None
    if kind == "perm":
        return {v0: v1, v1: v2, v2: v0, v3: v3}
    if kind == "many1":
        return {v0: v1, v1: v1, v2: v2, v3: v3}
    if kind == "many2":
        return {v0: v3, v1: v3, v2: v0, v3: v1}
    if kind == "allone":
        return {v0: v2, v1: v2, v2: v2, v3: v2}
    raise KeyError(kind)


TARGETS = [-3, 7, 300, 70000, -70000, 2 ** 33]


def minimal_dtype(values):
    lo, hi = min(values), max(values)
    return dtype_oracle(min(lo, 0) if lo < 0 else 0, hi if hi > 0 else 0) if lo < 0 else dtype_oracle(0, hi)


def run_one(arr, emb, common_sel, use_counts, map_kind, rb, in_minimal, acc, extra_case=None):
    """arr: int64 array already embedded. Returns True if evaluated (preconditions hold)."""
    from catii.iindexes import iindex

    mapping = make_mapping(map_kind, emb)
    common = None if common_sel == "omit" else emb[common_sel]
    if arr.size == 0 and common is None and mapping is None:
        return False
    case = {"array": arr.tolist(), "shape": list(arr.shape), "emb": [str(e) for e in emb], "common": common_sel, "counts": use_counts,
            "mapping": map_kind, "readback": rb, "in_minimal": in_minimal}
    if extra_case:
        case.update(extra_case)
    vals = [int(x) for x in arr.flat]
    a_in = arr
    if tuple(emb) in U64_ONLY:
        a_in = arr.astype(numpy.uint64)
    elif in_minimal and vals:
        dt = minimal_dtype(vals)
        a_in = arr.astype(dt)
    counts = None
    if use_counts:
        counts = {}
        for v in vals:
            counts[v] = counts.get(v, 0) + 1
    expected = arr if mapping is None else numpy.vectorize(mapping.get, otypes=[object])(arr).astype(object) if arr.size else arr.astype(object)
    exp_list = numpy.asarray(expected).tolist()
    a_before = a_in.copy()
    counts_arg = dict(counts) if counts is not None else None
    try:
        idx = iindex.from_array(a_in, counts=counts_arg, common=common, mapping=dict(mapping) if mapping else None)
    except Exception as e:  # noqa
        acc.violation("from_array:raised", case, repr(e))
        return True
    if counts is not None and counts_arg != counts:
        acc.violation("from_array:mutated-counts", case, "the caller's counts dict changed from %r to %r" % (counts, counts_arg))
    if not numpy.array_equal(a_before, a_in):
        acc.violation("from_array:mutated-input", case, "input array changed")
    if tuple(idx.shape) != tuple(arr.shape):
        acc.violation("roundtrip:shape", case, "index shape %r, input %r" % (idx.shape, arr.shape))
        return True
    present = set(int(x) for x in numpy.asarray(expected).flat) if arr.size else set()
    mcommon = None if common is None else (mapping[common] if mapping else common)
    universe = sorted(present | ({mcommon} if mcommon is not None else set()) | {idx.common if isinstance(idx.common, int) else int(idx.common)})
    kw = {}
    exp_out = exp_list
    if rb == "int64":
        kw["dtype"] = numpy.int64
    elif rb == "minimal":
        cand = sorted(present | ({mcommon} if mcommon is not None else set()))
        if not cand:
            # empty array, no caller-chosen common: the library's guess is the only value there is
            cand = [int(idx.common)]
        kw["dtype"] = minimal_dtype(cand)
        if kw["dtype"] is None:
            return False
        ii = numpy.iinfo(kw["dtype"])
        if not (ii.min <= int(idx.common) <= ii.max):
            # library-chosen common outside what the caller's dtype holds can only be a data value; cannot happen when present covers it
            pass
    elif rb in ("map", "map+int64", "map-many"):
        m2 = {v: TARGETS[i % len(TARGETS)] + (i // len(TARGETS)) for i, v in enumerate(universe)}
        if rb == "map-many":
            # a many-to-one read-back mapping: every value of the universe goes to one of two targets
            m2 = {v: TARGETS[i % 2] for i, v in enumerate(universe)}
        kw["mapping"] = m2
        if rb == "map+int64":
            kw["dtype"] = numpy.int64
        exp_out = numpy.vectorize(m2.get, otypes=[object])(numpy.asarray(expected, dtype=object)).tolist() if arr.size else exp_list
    try:
        out = idx.to_array(**kw)
    except Exception as e:  # noqa
        acc.violation("to_array:raised", case, "%r (index=%r)" % (e, idx))
        return True
    if tuple(out.shape) != tuple(arr.shape):
        acc.violation("roundtrip:shape", case, "output shape %r, input %r" % (out.shape, arr.shape))
        return True
    if out.tolist() != exp_out:
        acc.violation("roundtrip:values", case, "got %r expected %r (index=%r)" % (out.tolist(), exp_out, idx))
        return True
    if rb == "default" and arr.size:
        # (a) the array handed out belongs to the caller: edited in place, it must not show in the next conversion
        try:
            first = idx.to_array()
            if first.flags.writeable:
                first[...] = first.dtype.type(1) if first.dtype.kind in "iu" else 1
            else:
                acc.violation("to_array:read-only-result", case, "to_array() handed out a read-only array")
            again = idx.to_array()
            if again.tolist() != exp_list:
                acc.violation("roundtrip:after-editing-an-earlier-result", case, "the caller overwrote the array an earlier to_array() returned; the next to_array() gives %r, expected %r" % (again.tolist(), exp_list))
                return True
        except Exception as e:  # noqa
            acc.violation("to_array:raised", dict(case, step="second conversion"), repr(e))
            return True
        # (b) a read-back mapping that sends the stored common value to 0 (and 0, if present, elsewhere)
        cm = int(idx.common)
        if cm != 0 and -2 ** 62 < cm < 2 ** 62:
            mz = {v: v for v in universe}
            mz[cm] = 0
            if 0 in mz:
                mz[0] = 5
            try:
                outz = idx.to_array(mapping=dict(mz))
                expz = numpy.vectorize(mz.get, otypes=[object])(numpy.asarray(expected, dtype=object)).tolist()
                if outz.tolist() != expz:
                    acc.violation("roundtrip:values", dict(case, readback_mapping="common->0"), "read back through %r: got %r expected %r (index=%r)" % (mz, outz.tolist(), expz, idx))
                    return True
            except Exception as e:  # noqa
                acc.violation("to_array:raised", dict(case, readback_mapping="common->0"), "%r (index=%r)" % (e, idx))
                return True
    if rb == "default" and not in_minimal and arr.size and arr.ndim <= 2 and all(-2 ** 63 <= int(x) < 2 ** 63 for x in numpy.asarray(expected).flat) and -2 ** 63 <= int(idx.common) < 2 ** 62:
        afterlife(idx, numpy.asarray(expected, dtype=object), acc, case)
    return True


def afterlife(idx, expected, acc, case):
    """The index goes on living in an application: it is read in full, appended to another index, copied from, partly emptied and re-expressed -
    and after each step it must still convert back to the array it now stands for."""
    from catii.iindexes import iindex

    def same(tag, exp):
        try:
            got = idx.to_array().tolist()
        except Exception as e:  # noqa
            acc.violation("afterlife:to_array-raised", dict(case, after=tag), repr(e))
            return False
        if got != exp.tolist():
            acc.violation("afterlife:values", dict(case, after=tag), "after %s the index converts to %r, expected %r" % (tag, got, exp.tolist()))
            return False
        return True

    try:
        cur = expected.copy()
        idx.to_dict(force=True)
        list(idx.items(force=True))
        # (1) handed to another index's append, twice
        for _ in range(2):
            head = M.build_index(numpy.array(cur[:1].tolist(), dtype=numpy.int64), int(idx.common))   # (built directly: from_array would send huge values through bincount)
            head.append(idx)
            if head.to_array().tolist() != numpy.concatenate([cur[:1], cur]).tolist():
                acc.violation("afterlife:values", dict(case, after="append (receiver)"), "the receiver converts to %r" % (head.to_array().tolist(),))
                return
            if not same("being appended to another index", cur):
                return
        # (2) an entry emptied completely, then the index re-expressed under another common value
        keys = sorted(dict.keys(idx), key=repr)
        if keys:
            k = keys[0]
            rows = numpy.array(dict.__getitem__(idx, k), copy=True)
            idx.difference_update({k: rows})
            cur = cur.copy()
            cur[(rows.astype(numpy.int64).tolist(),) + tuple(k[1:])] = idx.common
            if not same("difference_update of a whole entry", cur):
                return
        present = sorted(set(int(x) for x in cur.flat) | {int(idx.common)})
        idx.shift_common(present[-1] + 1)
        if not same("shift_common to an absent value", cur):
            return
        idx.shift_common()
        same("shift_common()", cur)
    except Exception as e:  # noqa
        acc.violation("afterlife:raised", case, repr(e))


def run_layout(ea, arr_in, emb, cs, mk, rb, lname, acc):
    """Like run_one, but the array handed to from_array is `arr_in` (same values as ea, different memory layout / dtype)."""
    from catii.iindexes import iindex

    mapping = make_mapping(mk, emb)
    common = None if cs == "omit" else emb[cs]
    case = {"array": ea.tolist(), "shape": list(ea.shape), "emb": [str(e) for e in emb], "common": cs, "counts": False, "mapping": mk, "readback": rb, "layout": lname}
    before = numpy.array(arr_in, copy=True) if isinstance(arr_in, numpy.ndarray) else numpy.array(arr_in)
    try:
        idx = iindex.from_array(arr_in, common=common, mapping=dict(mapping) if mapping else None)
    except Exception as e:  # noqa
        acc.violation("from_array:raised", case, repr(e))
        return True
    if not numpy.array_equal(before, numpy.asarray(arr_in)):
        acc.violation("from_array:mutated-input", case, "input array changed")
    expected = ea if mapping is None else numpy.vectorize(mapping.get, otypes=[object])(ea)
    exp_list = numpy.asarray(expected).tolist()
    kw = {}
    if rb == "int64":
        kw["dtype"] = numpy.int64
    elif rb == "map":
        uni = sorted(set(int(x) for x in numpy.asarray(expected).flat) | {int(idx.common)} | ({mapping[common] if mapping else common} if common is not None else set()))
        m2 = {v: TARGETS[i % len(TARGETS)] + (i // len(TARGETS)) for i, v in enumerate(uni)}
        kw["mapping"] = m2
        exp_list = numpy.vectorize(m2.get, otypes=[object])(numpy.asarray(expected, dtype=object)).tolist()
    try:
        out = idx.to_array(**kw)
    except Exception as e:  # noqa
        acc.violation("to_array:raised", case, repr(e))
        return True
    if tuple(out.shape) != tuple(ea.shape) or out.tolist() != exp_list:
        acc.violation("roundtrip:values", case, "got %r expected %r (index=%r)" % (out.tolist(), exp_list, idx))
    return True


def blocks(tier):
    emb = EMB_QUICK if tier == "quick" else EMB_THOROUGH
    sh = SHAPES_QUICK if tier == "quick" else SHAPES_THOROUGH
    out = []
    for s in sh:
        n = 3 ** (int(numpy.prod(s)) if len(s) else 1) if numpy.prod(s) else 1
        for ei in range(len(emb)):
            step = 30
            for a in range(0, n, step):
                out.append(("small", {"shape": list(s), "ei": ei, "a0": a, "a1": min(n, a + step), "tier": tier}))
    out.append(("bincount-big", {"tier": tier}))
    for ei in range(len(emb)):
        out.append(("layout", {"tier": tier, "ei": ei}))
    for rs in rowscan_configs(tier):
        out.append(("rowscan", dict(rs, tier=tier)))
    return out


# ------------------------------------------------------------------ row-scan family

def rowscan_configs(tier):
    cfgs = []
    # (79,)/(81,) and (39, 3) sit just on either side of the strategy threshold (5 values / 100 = 5% uncommon cells)
    shapes = [((80,), 4), ((79,), 4), ((81,), 4), ((100,), 4), ((100,), 5), ((40, 3), 5), ((40, 3), 6), ((39, 3), 6), ((60, 2), 6)]
    # beyond block sizes a chunked scan might use (2^14, 2^16 rows): only a few arrays and options each (see run_block)
    shapes += [((16385,), 5), ((20000,), 5), ((70000,), 6), ((35001, 2), 6)]
    if tier == "thorough":
        shapes += [((120,), 6), ((60, 2), 5), ((131073,), 5), ((300000,), 6)]
    embs = ROWSCAN_EMBS  # dominant, 5 others, absent
    for si, (shape, k) in enumerate(shapes):
        for ei in range(len(embs)):
            for dup in (False, True):
                cfgs.append({"shape": list(shape), "k": k, "ei": ei, "dup": dup})
    return cfgs


# the third one: small codes with NEGATIVE ones among them (a lookup table indexed by the raw code would wrap them)
# the fourth and fifth: neighbouring values half the dtype's range apart or more (INT64_MIN next to 0; -128 next to 0 and 100 in int8): differences
# between sorted neighbours must not be taken in the array's own dtype
ROWSCAN_EMBS = [(0, 1, 2, 3, 4, 5, 9), (-2, 255, 256, 70000, -70000, 2 ** 40, 11), (7, -1, 2, 300, -5, 5, 9),
                (0, -2 ** 63, 3, 2 ** 62, 2 ** 62 + 1, 7, 9), (0, -128, 100, 5, 7, 127, 9)]


def rowscan_arrays(shape, k, emb, dup):
    """Dominant value emb[0] everywhere except k cells chosen among 6 slots, holding distinct other values
    (dup: the last cell repeats the first one's value)."""
    size = int(numpy.prod(shape))
    flat_slots = [0, 1, size // 2, size - 2, size - 1, size // 3]
    others = list(emb[1:6])
    for cells in itertools.combinations(flat_slots, min(k, 6)):
        if len(cells) < k:
            continue
        nvals = k - 1 if dup else k
        if nvals > len(others) or nvals + 1 < 5:
            continue
        for rot in range(len(others)):
            vals = [others[(rot + i) % len(others)] for i in range(nvals)]
            if dup:
                vals = vals + [vals[0]]
            a = numpy.full(size, emb[0], dtype=numpy.int64)
            for c, v in zip(cells, vals):
                a[c] = v
            yield a.reshape(shape), cells, vals


_rowscan_lines = None


def rowscan_marker_lines():
    """Line numbers (in iindexes.py) of the row-scan loop bodies inside from_array, found textually."""
    global _rowscan_lines
    if _rowscan_lines is None:
        import inspect

        from catii.iindexes import iindex

        src, start = inspect.getsourcelines(iindex.from_array.__func__)
        _rowscan_lines = {start + i for i, l in enumerate(src) if ".append(rowid)" in l}
    return _rowscan_lines


def with_line_coverage(fn):
    """Run fn() recording executed lines of from_array; return (result, rowscan_line_hit)."""
    import sys

    from catii.iindexes import iindex

    code = iindex.from_array.__func__.__code__
    hit = set()
    mon = sys.monitoring
    tool = 3
    try:
        mon.use_tool_id(tool, "vf-c01")
    except ValueError:
        return fn(), None

    def on_line(c, line):
        hit.add(line)
        return mon.DISABLE

    mon.register_callback(tool, mon.events.LINE, on_line)
    mon.set_local_events(tool, code, mon.events.LINE)
    try:
        r = fn()
    finally:
        mon.set_local_events(tool, code, 0)
        mon.register_callback(tool, mon.events.LINE, None)
        mon.free_tool_id(tool)
    return r, bool(hit & rowscan_marker_lines())


def run_block(family, p, acc):
    tier = p["tier"]
    if family == "small":
        emb = (EMB_QUICK if tier == "quick" else EMB_THOROUGH)[p["ei"]]
        shape = tuple(p["shape"])
        arrays = list(M.all_arrays(shape, range(3)))[p["a0"]:p["a1"]] if int(numpy.prod(shape)) else [numpy.zeros(shape, dtype=numpy.int64)]
        lut = numpy.array(emb[:3], dtype=object)
        for a in arrays:
            ea = lut[a].astype(numpy.int64) if a.size else a
            for cs, uc, mk, rb, im in itertools.product(COMMONS, (False, True), MAPPINGS, READBACK, (False, True)):
                if im and (not a.size or tuple(emb) in U64_ONLY):
                    continue
                if run_one(ea, emb, cs, uc, mk, rb, im, acc):
                    nt = len(set(a.flat)) >= 2 and (cs != "omit" or uc or mk != "none" or rb != "default")
                    acc.case((shape, p["ei"], a.tobytes(), cs, uc, mk, rb, im), nontrivial=nt, outcome=(cs == 3, mk, rb),
                             sample=lambda: {"array": ea.tolist(), "common": cs, "counts": uc, "mapping": mk, "readback": rb, "input_minimal_dtype": im})
        return
    if family == "layout":
        # memory layouts and unusual-but-integer input dtypes: Fortran order, strided views (every 2nd row / column of a larger
        # array, reversed), uint64, plus zero-column shapes; default and a few non-default options
        emb = (EMB_QUICK if tier == "quick" else EMB_THOROUGH)[p["ei"]]
        lut = numpy.array(emb[:3], dtype=object)
        shapes = [(3,), (4,), (2, 2), (3, 2), (2, 3)]
        for shape in shapes:
            for a in M.all_arrays(shape, range(3)):
                ea = lut[a].astype(numpy.int64)
                variants = []
                if ea.ndim == 2:
                    variants.append(("F", numpy.asfortranarray(ea)))
                    big = numpy.full((ea.shape[0] * 2, ea.shape[1] * 2), emb[0], dtype=numpy.int64)
                    big[::2, ::2] = ea
                    variants.append(("strided", big[::2, ::2]))
                    variants.append(("reversed", ea[::-1, ::-1][::-1, ::-1]))
                    variants.append(("transposed-view", numpy.ascontiguousarray(ea.T).T))
                else:
                    big = numpy.full(ea.shape[0] * 3, emb[1], dtype=numpy.int64)
                    big[::3] = ea
                    variants.append(("strided", big[::3]))
                    variants.append(("negative-stride", ea[::-1].copy()[::-1]))
                if min(int(x) for x in ea.flat) >= 0:
                    variants.append(("uint64", ea.astype(numpy.uint64)))
                # other legal representations of the same values: nested Python lists / tuples (from_array calls asarray), a read-only
                # array, and every narrower integer dtype that holds the values
                variants.append(("list", ea.tolist()))
                variants.append(("tuple", tuple(map(tuple, ea.tolist())) if ea.ndim == 2 else tuple(ea.tolist())))
                ro = ea.copy()
                ro.flags.writeable = False
                variants.append(("read-only", ro))
                lo, hi = min(int(x) for x in ea.flat), max(int(x) for x in ea.flat)
                for dt in (numpy.int8, numpy.uint8, numpy.int16, numpy.uint16, numpy.int32, numpy.uint32):
                    ii = numpy.iinfo(dt)
                    if ii.min <= lo and hi <= ii.max and ii.min <= min(emb[:4]) and max(emb[:4]) <= ii.max:
                        variants.append((numpy.dtype(dt).name, ea.astype(dt)))
                for lname, arr_in in variants:
                    for cs, mk, rb in (("omit", "none", "default"), (1, "many1", "int64"), (3, "perm", "map")):
                        if run_layout(ea, arr_in, emb, cs, mk, rb, lname, acc):
                            acc.case(("layout", shape, p["ei"], a.tobytes(), lname, cs, mk, rb), nontrivial=len(set(a.flat)) >= 2, outcome=("layout", lname),
                                     sample=lambda: {"array": ea.tolist(), "layout": lname, "common": cs, "mapping": mk, "readback": rb})
        for shape in ((0, 0), (2, 0), (0, 2)):
            z = numpy.zeros(shape, dtype=numpy.int64)
            for cs in (0, 3):
                if run_one(z, emb, cs, False, "none", "int64", False, acc):
                    acc.case(("zero-cols", shape, p["ei"], cs), nontrivial=False, outcome=("zero-cols",), sample={"shape": list(shape), "common": cs})
        return
    if family == "bincount-big":
        # arrays whose values reach numpy.bincount with a large maximum (16 GiB virtual zero array at 2^31): a handful only
        big = [[0, 2 ** 31]] if tier == "quick" else [[2 ** 31 - 1], [0, 2 ** 31], [2 ** 31, 2 ** 31 - 1, 2 ** 31]]
        for vals in big:
            a = numpy.array(vals, dtype=numpy.int64)
            emb = (2 ** 31 - 1, 2 ** 31, 0, 5)
            for cs, rb in (("omit", "default"), (3, "map")):
                if run_one(a, emb, cs, False, "none", rb, False, acc):
                    acc.case(("big", tuple(vals), cs, rb), nontrivial=len(set(vals)) > 1, outcome=("big",), sample={"array": vals, "common": cs, "readback": rb})
        return
    # row-scan family
    emb7 = ROWSCAN_EMBS[p["ei"]]
    shape = tuple(p["shape"])
    first = True
    big = int(numpy.prod(shape)) >= 10000
    arrays = rowscan_arrays(shape, p["k"], emb7, p["dup"])
    if big:
        arrays = itertools.islice(arrays, 0, None, 19)     # a few slot subsets / rotations only
    for a, cells, vals in arrays:
        # options: common omitted / dominant / a rare present value / absent;  counts; mapping none / many-to-one / injective
        present = sorted(set(int(x) for x in a.flat))
        for cs in (("omit", "absent") if big else ("omit", "dominant", "rare", "absent")):
            common = {"omit": None, "dominant": emb7[0], "rare": vals[0], "absent": emb7[6]}[cs]
            for uc in (False, True):
                for mk in (("none", "many") if big else ("none", "many", "inj", "allone")):
                    for rb in (("default",) if big else ("default", "int64", "map")):
                        ok = rowscan_one(a, emb7, common, cs, uc, mk, rb, cells, vals, acc, probe=first)
                        first = False
                        if p["ei"] == 4 and not uc and rb == "default" and mk in ("none", "many"):
                            # the same values in the narrowest signed dtype that holds them (int8)
                            rowscan_one(a.astype(numpy.int8), emb7, common, cs, uc, mk, rb, cells, vals, acc, layout="int8")
                        if a.ndim == 2 and not uc and rb == "default" and mk in ("none", "inj"):
                            # the same values in Fortran order and as a transposed view (memory order != index order)
                            for lname, arr_in in (("F", numpy.asfortranarray(a)), ("T-view", numpy.ascontiguousarray(a.T).T)):
                                if rowscan_one(arr_in, emb7, common, cs, uc, mk, rb, cells, vals, acc, layout=lname):
                                    acc.case(("rs", shape, p["k"], p["ei"], p["dup"], cells, tuple(vals), cs, uc, mk, rb, lname), nontrivial=True, outcome=("rs", cs, mk, lname),
                                             sample=lambda: {"shape": list(shape), "layout": lname, "cells": list(cells), "values": vals, "common": cs, "mapping": mk})
                        if ok:
                            acc.case(("rs", shape, p["k"], p["ei"], p["dup"], cells, tuple(vals), cs, uc, mk, rb), nontrivial=True, outcome=("rs", cs, mk, rb),
                                     sample=lambda: {"shape": list(shape), "dominant": emb7[0], "cells": list(cells), "values": vals, "common": cs, "counts": uc, "mapping": mk, "readback": rb})


def rowscan_one(a, emb7, common, cs, uc, mk, rb, cells, vals, acc, probe=False, layout=None):
    from catii.iindexes import iindex

    allv = list(emb7)
    if mk == "none":
        mapping = None
    elif mk == "many":
        # send the first two rare values together, everything else to itself
        mapping = {v: v for v in allv}
        mapping[emb7[2]] = emb7[1]
    elif mk == "allone":
        mapping = {v: emb7[1] for v in allv}
    else:
        mapping = {v: allv[(i + 1) % len(allv)] for i, v in enumerate(allv)}
    case = {"rowscan": True, "shape": list(a.shape), "emb": [str(e) for e in emb7], "cells": list(cells), "values": [str(v) for v in vals], "common": cs,
            "counts": uc, "mapping": mk, "readback": rb, "layout": layout}
    counts = None
    if uc:
        counts = {}
        for v in a.flat:
            counts[int(v)] = counts.get(int(v), 0) + 1
    expected = a if mapping is None else numpy.vectorize(mapping.get, otypes=[object])(a)
    exp_list = numpy.asarray(expected).tolist()

    counts0 = dict(counts) if counts is not None else None

    def build():
        return iindex.from_array(a, counts=counts, common=common, mapping=dict(mapping) if mapping else None)

    try:
        if probe:
            idx, hit = with_line_coverage(build)
            if hit is not None:
                acc.count("rowscan_probe_runs", 1)
                acc.count("rowscan_branch_executed", 1 if hit else 0)
        else:
            idx = build()
    except Exception as e:  # noqa
        acc.violation("from_array:raised", case, repr(e))
        return True
    if counts is not None and counts != counts0:
        acc.violation("from_array:mutated-counts", case, "the caller's counts dict changed: %r -> %r" % (sorted(counts0.items()), sorted(counts.items())))
        counts.clear()
        counts.update(counts0)
    kw = {}
    exp_out = exp_list
    if rb == "int64":
        kw["dtype"] = numpy.int64
    elif rb == "map":
        uni = sorted(set(int(x) for x in numpy.asarray(expected).flat) | {int(idx.common)} | ({mapping[common] if mapping else common} if common is not None else set()))
        m2 = {v: TARGETS[i % len(TARGETS)] + (i // len(TARGETS)) for i, v in enumerate(uni)}
        kw["mapping"] = m2
        exp_out = numpy.vectorize(m2.get, otypes=[object])(numpy.asarray(expected, dtype=object)).tolist()
    try:
        out = idx.to_array(**kw)
    except Exception as e:  # noqa
        acc.violation("to_array:raised", case, "%r" % (e,))
        return True
    if tuple(out.shape) != tuple(a.shape):
        acc.violation("roundtrip:shape", case, "output shape %r, input %r" % (out.shape, a.shape))
    elif out.tolist() != exp_out:
        bad = [(i, g, w) for i, (g, w) in enumerate(zip(numpy.asarray(out).reshape(-1).tolist(), numpy.asarray(exp_out, dtype=object).reshape(-1).tolist())) if g != w][:6]
        acc.violation("roundtrip:values", case, "differs at (flat index, got, expected) %r" % (bad,))
    return True


def replay(case, site=None):
    from ..core import Acc

    acc = Acc(ID, [], stop_at_first=False)
    if case.get("rowscan"):
        emb7 = tuple(int(e) for e in case["emb"])
        shape = tuple(case["shape"])
        a = numpy.full(int(numpy.prod(shape)), emb7[0], dtype=numpy.int64)
        vals = [int(v) for v in case["values"]]
        for c, v in zip(case["cells"], vals):
            a[c] = v
        a = a.reshape(shape)
        common = {"omit": None, "dominant": emb7[0], "rare": vals[0], "absent": emb7[6]}[case["common"]]
        if case.get("layout") == "int8":
            a = a.astype(numpy.int8)
        elif case.get("layout") == "F":
            a = numpy.asfortranarray(a)
        elif case.get("layout") == "T-view":
            a = numpy.ascontiguousarray(a.T).T
        rowscan_one(a, emb7, common, case["common"], case["counts"], case["mapping"], case["readback"], tuple(case["cells"]), vals, acc, layout=case.get("layout"))
    else:
        emb = tuple(int(e) for e in case["emb"])
        arr = numpy.array(case["array"], dtype=numpy.int64).reshape(tuple(case["shape"]))
        run_one(arr, emb, case["common"], case["counts"], case["mapping"], case["readback"], case.get("in_minimal", False), acc)
    for v in acc.violations:
        print("  %s :: %s" % (v["site"], v["detail"][:700]))
    return bool(acc.violations)
