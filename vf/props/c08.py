"""C08: sorted-set kernels compute exact set algebra."""
import numpy

from .. import kernels as K

ID = "C08"
LEVEL = "exploration"
VARIANT = "plain"


def describe(tier):
    return {
        "rule": "operands are passed both as contiguous arrays and as non-contiguous (strided) views; every ordered pair (A,B) of subsets of a %d-value universe and of the boundary universe %r, through the three "
        "merge kernels and the three None-aware wrappers (every None/array/empty form, every copy flag); every ordered pair of structured sets (dense, evens, odds, multiples of three, shifted, two far blocks) with lengths on either side of 16..128 (..1024 thorough) - block/SIMD boundaries; every (long contiguous run of 8..17(33) elements, optionally with one hole) x (1..2 sparse probe elements) pair in both orders - the shape block-skipping optimisations are written for; every list of "
        "0..k subsets for the multi-way union. A pair case is non-trivial when both operands are non-empty and their ranges "
        "overlap (no shortcut applies); a list case when it has >=2 non-empty arrays. Distinct = distinct (universe, A, B) / list."
        % (K.LOW[tier], K.HIGH[tier]),
        "bounds": {"low_universe": K.LOW[tier], "high_universe": K.HIGH[tier], "many": [(n, len(u), k) for n, u, k in K.many_families(tier)]},
        "exhaustive": True,
        "assumptions": [
            "kernel control flow depends only on order comparisons between elements, lengths, and (multi-way) max+1: a universe of m values realises every interleaving pattern with |A u B| <= m",
            "python set algebra is the oracle",
        ],
    }


def blocks(tier):
    bl = K.pair_blocks(tier) + K.many_blocks(tier) + K.run_blocks(tier) + K.block_blocks(tier) + [("manylong", {}), ("huge", {}), ("shared", {})]
    return [(f, dict(p, tier=tier)) for f, p in bl]


def _so():
    import catii.set_operations as so

    return so


_EARLIER = []      # the last few arrays the kernels returned, kept alive on purpose


def check_pair(A, B, acc, uname):
    so = _so()
    a, b = K.arr(A), K.arr(B)
    a0, b0 = a.copy(), b.copy()
    sA, sB = set(A), set(B)
    exp = {
        "intersect": sorted(sA & sB),
        "union": sorted(sA | sB),
        "difference": sorted(sA - sB),
    }
    case = {"u": uname, "A": A, "B": B}
    for op, fn in (("intersect", so.set_intersect_merge_np), ("union", so.set_union_merge_np), ("difference", so.set_difference_merge_np)):
        try:
            res = fn(a, b)
        except Exception as e:  # noqa
            acc.violation("kernel:" + op, dict(case, op=op), "raised %r" % (e,))
            continue
        msg = K.check_result(res, exp[op])
        if msg:
            acc.violation("kernel:" + op, dict(case, op=op), msg)
        elif isinstance(res, numpy.ndarray):
            _EARLIER.append((res, exp[op], dict(case, op=op)))
    # what earlier calls returned must still be what it was (a kernel that hands out views of a work buffer it re-uses would change it)
    del _EARLIER[:-6]
    for eres, eexp, ecase in _EARLIER[:-3]:
        if eres.tolist() != eexp:
            acc.violation("kernel:earlier-result-changed", dict(case, earlier=ecase), "after these calls the array an EARLIER %s call returned reads %r instead of %r" % (ecase["op"], eres.tolist()[:12], eexp[:12]))
            del _EARLIER[:]
            break
    # wrappers, with None forms
    for la, lname in ((a, "arr"), (None, "none")):
        for rb, rname in ((b, "arr"), (None, "none")):
            L = sA if la is not None else None
            R = sB if rb is not None else None
            # intersection: None if either None or empty result
            want = None if (L is None or R is None or not (L & R)) else sorted(L & R)
            _wrap(acc, "wrapper:intersection", dict(case, l=lname, r=rname), lambda: so.intersection(la, rb), want)
            # union: None if both None, or empty result
            if L is None and R is None:
                want = None
            else:
                u = (L or set()) | (R or set())
                want = sorted(u) if u else None
            for cl in (False, True):
                for cr in (False, True):
                    _wrap(acc, "wrapper:union", dict(case, l=lname, r=rname, cl=cl, cr=cr), lambda: so.union(la, rb, copy_left=cl, copy_right=cr), want)
            # difference: None if left None or empty result
            if L is None:
                want = None
            else:
                d = L - (R or set())
                want = sorted(d) if d else None
            for cp in (False, True):
                _wrap(acc, "wrapper:difference", dict(case, l=lname, r=rname, copy=cp), lambda: so.difference(la, rb, copy=cp), want)
    if not (numpy.array_equal(a, a0) and numpy.array_equal(b, b0)):
        acc.violation("kernel:mutated-input", case, "an operand was modified")
    # the same operands as non-contiguous views
    check_kernels_only(A, B, acc, uname, layouts=("strided",))


def _wrap(acc, site, case, thunk, want):
    try:
        res = thunk()
    except Exception as e:  # noqa
        acc.violation(site, case, "raised %r" % (e,))
        return
    if want is None:
        if res is not None:
            acc.violation(site, case, "expected None, got %r" % (res,))
    else:
        msg = K.check_result(res, want)
        if msg:
            acc.violation(site, case, msg)


def check_many(lst, acc, fam, label=None):
    so = _so()
    lst = [K.expand(x) for x in lst]
    arrays = [K.arr(x) for x in lst]
    want = sorted(set().union(*[set(x) for x in lst])) if lst else []
    case = {"fam": fam, "arrays": label if label is not None else [list(x) for x in lst]}
    try:
        res = so.set_union_merge_many(arrays)
    except Exception as e:  # noqa
        acc.violation("kernel:union_many", case, "raised %r" % (e,))
        return
    msg = K.check_result(res, want)
    if msg:
        acc.violation("kernel:union_many", case, msg)


def check_kernels_only(A, B, acc, uname, layouts=("contiguous", "strided"), label=None):
    so = _so()
    A, B = K.expand(A), K.expand(B)
    sA, sB = set(A), set(B)
    for layout in layouts:
        a, b = (K.arr(A), K.arr(B)) if layout == "contiguous" else (K.strided(A), K.strided(B))
        case = {"u": uname, "A": label[0] if label else A, "B": label[1] if label else B, "layout": layout}
        for op, fn, want in (("intersect", so.set_intersect_merge_np, sA & sB), ("union", so.set_union_merge_np, sA | sB), ("difference", so.set_difference_merge_np, sA - sB)):
            try:
                res = fn(a, b)
            except Exception as e:  # noqa
                acc.violation("kernel:" + op, dict(case, op=op), "raised %r" % (e,))
                continue
            msg = K.check_result(res, sorted(want))
            if msg:
                acc.violation("kernel:" + op, dict(case, op=op), msg)


def run_block(family, p, acc):
    tier = p["tier"]
    if family == "runs":
        probes = K.probe_sets(tier)
        for A in K.run_sets(tier)[p["a0"]:p["a1"]]:
            for B in probes:
                check_kernels_only(A, B, acc, "runs")
                check_kernels_only(B, A, acc, "runs")
                acc.case(("runs", tuple(A), tuple(B)), nontrivial=K.overlapping(A, B), outcome=("runs", len(set(A) & set(B))), sample=lambda: {"universe": "runs", "A": A, "B": B})
        return
    if family == "shared":
        so = _so()
        for sa, a, sb, b in K.shared_buffer_views():
            A, B = a.tolist(), b.tolist()
            case = {"u": "shared-buffer", "A": A, "B": B, "views": [list(sa), list(sb)]}
            for op, fn, want in (("intersect", so.set_intersect_merge_np, set(A) & set(B)), ("union", so.set_union_merge_np, set(A) | set(B)), ("difference", so.set_difference_merge_np, set(A) - set(B))):
                try:
                    res = fn(a, b)
                except Exception as e:  # noqa
                    acc.violation("kernel:" + op, dict(case, op=op), "raised %r" % (e,))
                    continue
                msg = K.check_result(res, sorted(want))
                if msg:
                    acc.violation("kernel:" + op, dict(case, op=op), "views %r and %r of one buffer: %s" % (sa, sb, msg))
            acc.case(("shared", sa, sb), nontrivial=True, outcome=("shared", len(set(A) & set(B))), sample=lambda: case)
        return
    if family == "huge":
        for da, db in K.huge_pairs(tier):
            check_kernels_only(da, db, acc, "blocked", layouts=("contiguous",), label=(da, db))
            check_kernels_only(db, da, acc, "blocked", layouts=("contiguous",), label=(db, da))
            acc.case(("huge", da["pat"], da["n"], repr(db)), nontrivial=True, outcome=("huge", da["pat"]), sample=lambda: {"universe": "blocked", "A": da, "B": db})
        return
    if family == "manylong":
        for lst in K.many_long_lists(tier):
            check_many(lst, acc, "manylong")
            acc.case(("manylong", tuple(map(tuple, lst))), nontrivial=True, outcome=("manylong", len(lst)), sample=lambda: {"fam": "manylong", "arrays": lst})
        return
    if family == "blocked":
        descs = K.block_descs(tier)
        for da in descs[p["a0"]:p["a1"]]:
            A = K.expand(da)
            for db in descs:
                B = K.expand(db)
                check_kernels_only(A, B, acc, "blocked", layouts=("contiguous", "strided") if (da["n"] + db["n"]) % 5 == 0 else ("contiguous",), label=(da, db))
                acc.case(("blocked", da["pat"], da["n"], db["pat"], db["n"]), nontrivial=True, outcome=("blocked", da["pat"], db["pat"]), sample=lambda: {"universe": "blocked", "A": da, "B": db})
            for B in K.tiny_probes(A):
                check_kernels_only(A, B, acc, "blocked", layouts=("contiguous",), label=(da, B))
                check_kernels_only(B, A, acc, "blocked", layouts=("contiguous",), label=(B, da))
                acc.case(("tiny", da["pat"], da["n"], tuple(B)), nontrivial=True, outcome=("tiny", len(set(A) & set(B))), sample=lambda: {"universe": "blocked", "A": da, "B": B})
            for db in descs[:: 7]:
                for dc in descs[3:: 11]:
                    lst = [A, K.expand(db), K.expand(dc)]
                    check_many(lst, acc, "blocked", label=[da, db, dc])
        return
    if family == "pairs":
        uni = K.universes(tier)[p["u"]]
        n = 1 << len(uni)
        for ma in range(p["a0"], p["a1"]):
            A = K.subset(uni, ma)
            for mb in range(n):
                B = K.subset(uni, mb)
                check_pair(A, B, acc, p["u"])
                acc.case((p["u"], ma, mb), nontrivial=K.overlapping(A, B), outcome=(len(set(A) & set(B)), len(set(A) - set(B)) > 0),
                         sample=lambda: {"universe": p["u"], "A": A, "B": B})
    else:
        for lst in K.many_lists(tier, p["fam"], p["n"]):
            check_many(lst, acc, p["fam"])
            ne = sum(1 for x in lst if x)
            acc.case((p["fam"], tuple(map(tuple, lst))), nontrivial=ne >= 2, outcome=("many", ne), sample=lambda: {"fam": p["fam"], "arrays": lst})


def replay(case, site=None):
    from ..core import Acc, StopBlock

    acc = Acc(ID, [], stop_at_first=False)
    if "arrays" in case:
        check_many(case["arrays"], acc, case.get("fam"))
    elif case.get("u") == "shared-buffer":
        run_block("shared", {"tier": "quick"}, acc)
        acc.violations[:] = [v for v in acc.violations if v["case"].get("views") == case.get("views")]
    elif case.get("u") in ("runs", "blocked") or case.get("layout") == "strided":
        check_kernels_only(case["A"], case["B"], acc, case.get("u"))
    else:
        if case.get("earlier"):
            del _EARLIER[:]
            check_pair(case["earlier"]["A"], case["earlier"]["B"], acc, case["earlier"].get("u"))
        check_pair(case["A"], case["B"], acc, case.get("u"))
    for v in acc.violations:
        print("  %s %s :: %s" % (v["site"], v["case"], v["detail"]))
    return bool(acc.violations)
