"""C04: the missing-cell rule, and agreement of the three missing-value report formats."""
import itertools
import math

import numpy

from .. import cubes as Q
from .. import models as M
from . import c03

ID = "C04"
LEVEL = "exploration"

NaN = float("nan")
FORMATS = [("nan", NaN), ("pair0", (0, False)), ("pair-1", (-1, False)), ("pair7", (7, False)), ("plain0", 0)]

SETS = {
    "quick": [
        dict(D=0, Ns=[0, 1, 2], E=2, wl=1, Ks=[0, 2], fl=1, forms=["nan", "int"], vals=["pow2"], wforms=False),
        dict(D=1, Ns=[0, 1], E=2, wl=2, Ks=[0, 2], fl=2, forms=["nan", "int"], vals=["pow2"], wforms=False),
        dict(D=1, Ns=[2], E=2, wl=1, Ks=[0, 2], fl=1, forms=["nan", "int"], vals=["pow2"], wforms=False),
        dict(D=1, Ns=[3], E=2, wl=1, Ks=[0], fl=1, forms=["pair-nan"], vals=["pow2"], wforms=False),
        dict(D=2, Ns=[1], E=2, wl=1, Ks=[0, 2], fl=1, forms=["nan"], vals=["pow2"], wforms=False),
        dict(D=2, Ns=[2], E=2, wl=1, Ks=[0], fl=1, forms=["nan"], vals=["pow2"], wforms=False),
    ],
    "thorough": [
        dict(D=0, Ns=[0, 1, 2, 3], E=2, wl=2, Ks=[0, 2], fl=2, forms=["nan", "int"], vals=["pow2"], wforms=True),
        dict(D=1, Ns=[0, 1, 2, 3], E=2, wl=2, Ks=[0, 2], fl=2, forms=["nan", "pair-huge", "int"], vals=["pow2", "mixed"], wforms=True),
        dict(D=2, Ns=[1, 2], E=2, wl=2, Ks=[0, 2], fl=2, forms=["nan", "int"], vals=["pow2"], wforms=False),
        dict(D=2, Ns=[3], E=2, wl=1, Ks=[0, 2], fl=1, forms=["nan"], vals=["pow2"], wforms=False),
        dict(D=3, Ns=[2], E=2, wl=1, Ks=[0], fl=1, forms=["nan"], vals=["pow2"], wforms=False),
    ],
}


def describe(tier):
    return {
        "rule": "C03's call space (every missing pattern of fact and weight values, both policies, every data vector and every common value per dimension, both cube "
        "types) on the listed sets x report formats NaN, (0,False), (-1,False), (7,False), plain 0. Checked per call and cube: (i) the missing set of the NaN "
        "format == the rule evaluated on the rows of each cell (no row; all/any fact-or-weight value missing; mean with zero valid weight); (ii) ~validity of each "
        "pair format == that set; (iii) values agree across formats on non-missing cells; (iv) the plain-0 output is 0 on the missing set. valid_count with plain 0 "
        "under propagation is excluded (documented shortcut). The five calls of one comparison share the same argument arrays (a caller comparing formats re-uses its data). Non-trivial: the expected output has at least one missing and one non-missing cell. "
        "Distinct = distinct (data, commons, call).",
        "bounds": {"sets": SETS[tier], "formats": [f[0] for f in FORMATS]},
        "exhaustive": True,
        "assumptions": ["sentinel storage at missing positions is not compared (the statement does not speak about it)"],
    }


def blocks(tier):
    out = [("residue", {"i": i}) for i in range(len(RESIDUE_DATA))] + [("wide1", {"E": E}) for E in WIDE1] + [("float32", {}), ("negative", {})]
    for si, cfg in enumerate(SETS[tier]):
        for N in cfg["Ns"]:
            if cfg["D"] == 0:
                out.append(("zero", {"tier": tier, "si": si, "N": N}))
                continue
            ndata = (cfg["E"] ** N) ** cfg["D"]
            ncalls = sum(1 for _ in c03.calls(N, cfg))
            per = max(1, 1500 // max(1, ncalls * (3 ** cfg["D"] + 1)))
            for a in range(0, ndata, per):
                out.append(("set", {"tier": tier, "si": si, "N": N, "a0": a, "a1": min(ndata, a + per)}))
    return out


def check_formats(kind, mk_cube, call, N, evals, emiss, grand, acc, case, zero_dim=False, transform=None):
    agg, ignore, ws, fs = call
    results = {}
    # the SAME argument objects are passed to all five calls, as a caller comparing report formats would do
    f2, _, _, _, w2, _, _ = c03.realise(N, ws, fs)
    if transform is not None:
        f2, w2 = transform(f2, w2)
    for fname, fmt in FORMATS:
        try:
            res = Q.call_cube(mk_cube(), agg, f2, w2, ignore, fmt, N=N if (agg == "count" and zero_dim) else None)
            v, m = Q.normalise(res, fmt)
        except Exception as e:  # noqa
            acc.violation("%s:%s:%s:raised" % (kind, agg, fname), case, repr(e))
            return
        v = numpy.asarray(v)
        if zero_dim and v.size == evals.size:
            v = v.reshape(evals.shape)
            m = None if m is None else m.reshape(emiss.shape)
        if v.shape != evals.shape:
            acc.violation("%s:%s:%s:shape" % (kind, agg, fname), case, "shape %r expected %r" % (v.shape, evals.shape))
            return
        results[fname] = (v, m)
        acc.count(kind + "_evals")
    tol = 1e-9 * max(1.0, abs(grand))
    ok = ~emiss
    for fname, (v, m) in results.items():
        shortcut = fname == "plain0" and agg == "valid_count" and not ignore
        if m is not None and not numpy.array_equal(m, emiss):
            acc.violation("%s:%s:%s:missing-set" % (kind, agg, fname), case, "format %s reports missing %r, rule gives %r; values %r" % (fname, m.astype(int).tolist(), emiss.astype(int).tolist(), v.tolist()))
            continue
        if shortcut:
            continue
        if ok.any():
            a = v[ok].astype(float)
            if not numpy.all(numpy.abs(a - evals[ok]) <= tol):
                acc.violation("%s:%s:%s:values" % (kind, agg, fname), case, "format %s values %r, expected %r on non-missing cells (missing %r)" % (fname, v.tolist(), evals.tolist(), emiss.astype(int).tolist()))
                continue
        if fname == "plain0" and emiss.any():
            z = v[emiss].astype(float)
            if not numpy.all(z == 0):
                acc.violation("%s:%s:plain0:not-zero-on-missing" % (kind, agg), case, "plain-0 output %r, missing set %r" % (v.tolist(), emiss.astype(int).tolist()))


def check_data(datas, E, N, cfg, acc, only_call=None, only_commons=None):
    from catii.ccubes import ccube
    from catii.xcubes import xcube

    D = len(datas)
    denses = [numpy.array(t, dtype=numpy.int64) for t in datas]
    shape = (E + 1,) * D
    cells = M.cell_rows(denses, shape, N)
    commons_list = list(itertools.product(range(E + 1), repeat=D)) if only_commons is None else [tuple(only_commons)]
    dims_by = {cs: [M.build_index(d, c) for d, c in zip(denses, cs)] for cs in commons_list}
    for call in (c03.calls(N, cfg) if only_call is None else [only_call]):
        agg, ignore, ws, fs = call
        f_arg, x, valid, K, w_arg, w, wok = c03.realise(N, ws, fs)
        grand = Q.grand_total(x, w, N, K)
        evals, emiss = Q.oracle(agg, cells, shape, N, K, x, valid, w, wok, ignore)
        base = {"data": [list(t) for t in datas], "E": E, "agg": agg, "ignore": ignore, "weights": ws, "fact": fs}
        check_formats("xcube", lambda: xcube(denses, interacting_shape=shape), call, N, evals, emiss, grand, acc, dict(base, cube="xcube"))
        nt = bool(emiss.any() and (~emiss).any())
        for cs in commons_list:
            dims = dims_by[cs]
            check_formats("ccube", lambda: ccube(dims, interacting_shape=shape), call, N, evals, emiss, grand, acc, dict(base, cube="ccube", commons=list(cs)))
            acc.case((tuple(datas), cs, agg, ignore, ws, fs), nontrivial=nt, outcome=(agg, ignore, int(emiss.sum()), int((~emiss).sum())),
                     sample=lambda: dict(base, commons=list(cs), formats=[f[0] for f in FORMATS]))


def check_zero(N, cfg, acc, only_call=None):
    from catii.ccubes import ccube
    from catii.xcubes import xcube

    cells = {(): list(range(N))}
    for call in (c03.calls(N, cfg) if only_call is None else [only_call]):
        agg, ignore, ws, fs = call
        f_arg, x, valid, K, w_arg, w, wok = c03.realise(N, ws, fs)
        grand = Q.grand_total(x, w, N, K)
        evals, emiss = Q.oracle(agg, cells, (), N, K, x, valid, w, wok, ignore)
        case = {"data": [], "N": N, "agg": agg, "ignore": ignore, "weights": ws, "fact": fs}
        check_formats("ccube0", lambda: ccube([]), call, N, evals, emiss, grand, acc, dict(case, cube="ccube"), zero_dim=True)
        check_formats("xcube0", lambda: xcube([]), call, N, evals, emiss, grand, acc, dict(case, cube="xcube"), zero_dim=True)
        acc.case(("zero", N, agg, ignore, ws, fs), nontrivial=False, outcome=("zero", agg, bool(emiss.any())), sample=case)


# Rounding residue: with a dozen rows and decimal weights the marginal differencing of the index cube leaves several ulps in a
# reconstructed cell that holds no row; the missing-cell rule must survive that (and tiny genuine weights must not be snapped away
# is NOT claimed: the statement's rule is about rows).
RESIDUE_DATA = [
    ((1, 1, 2, 2, 0, 0, 2, 2, 0, 0, 2, 1), (0, 2, 0, 1, 1, 1, 0, 0, 2, 2, 2, 1)),
    ((0, 1, 2, 0, 1, 2, 0, 1, 2, 0, 1, 2), (1, 1, 1, 2, 2, 0, 1, 0, 0, 2, 2, 1)),
    ((1, 1, 1, 1, 2, 2, 2, 2, 1, 2, 1, 2), (0, 1, 2, 0, 1, 2, 2, 1, 0, 0, 1, 2)),
    ((0, 0, 0, 1, 1, 1, 2, 2, 2, 1, 1, 2), (1, 2, 1, 0, 2, 0, 1, 0, 0, 1, 2, 2)),
    ((2, 1, 2, 1, 2, 1, 2, 1, 2, 1, 2, 1), (1, 2, 1, 2, 1, 2, 1, 2, 2, 1, 2, 1)),
]


def residue_calls(N):
    D = tuple("D" * N)
    wss = [("array", D, "nan"), ("array", tuple("DP" * (N // 2)), "nan"), ("array", tuple("DDM" * (N // 3)), "nan"), ("array", tuple("DZD" * (N // 3)), "pair-nan")]
    none = tuple([False] * N)
    one = tuple([i == 4 for i in range(N)])
    fss = [(0, "pow2", none, "nan"), (0, "mixed", one, "nan"), (2, "pow2", tuple([False] * (2 * N)), "pair-huge"), (2, "mixed", tuple([i in (3, 8) for i in range(2 * N)]), "nan")]
    for ignore in (False, True):
        for ws in wss:
            yield ("count", ignore, ws, None)
            for fs in fss:
                for agg in ("mean", "sum", "valid_count"):
                    yield (agg, ignore, ws, fs)


def check_residue(i, acc, only_call=None, only_commons=None):
    from catii.ccubes import ccube
    from catii.xcubes import xcube

    datas = RESIDUE_DATA[i]
    N, E = 12, 3
    denses = [numpy.array(t, dtype=numpy.int64) for t in datas]
    shape = (E,) * 2
    cells = M.cell_rows(denses, shape, N)
    commons_list = [(0, 0), (1, 0), (2, 2), (0, 1), (1, 2)] if only_commons is None else [tuple(only_commons)]
    dims_by = {cs: [M.build_index(d, c) for d, c in zip(denses, cs)] for cs in commons_list}
    for call in (residue_calls(N) if only_call is None else [only_call]):
        agg, ignore, ws, fs = call
        f_arg, x, valid, K, w_arg, w, wok = c03.realise(N, ws, fs)
        grand = Q.grand_total(x, w, N, K)
        evals, emiss = Q.oracle(agg, cells, shape, N, K, x, valid, w, wok, ignore)
        base = {"residue": i, "data": [list(t) for t in datas], "E": E, "agg": agg, "ignore": ignore, "weights": ws, "fact": fs}
        check_formats("xcube", lambda: xcube(denses, interacting_shape=shape), call, N, evals, emiss, grand, acc, dict(base, cube="xcube"))
        for cs in commons_list:
            dims = dims_by[cs]
            check_formats("ccube", lambda: ccube(dims, interacting_shape=shape), call, N, evals, emiss, grand, acc, dict(base, cube="ccube", commons=list(cs)))
            acc.case(("residue", i, cs, agg, ignore, ws, fs), nontrivial=bool(emiss.any() and (~emiss).any()), outcome=("residue", agg, ignore, int(emiss.sum())),
                     sample=lambda: dict(base, commons=list(cs)))


# One dimension with many categories under a several-column fact (cell x column numbering in the cube's narrow coordinate type), and
# facts / weights in single precision (NaN is still the missing marker there).
WIDE1 = [100, 200, 300]


def _f32(f, w):
    conv = lambda a: a.astype(numpy.float32) if isinstance(a, numpy.ndarray) and a.dtype.kind == "f" else a  # noqa
    cv = lambda arg: tuple(conv(a) for a in arg) if isinstance(arg, tuple) else conv(arg)  # noqa
    return (None if f is None else cv(f)), (w if w is None or isinstance(w, (int, float)) else cv(w))


def check_wide1(E, acc, only_call=None, only_data=None):
    from catii.ccubes import ccube
    from catii.xcubes import xcube

    N, K = 4, 3
    pat = tuple((r == 1 and k == 0) or (r == 2 and k == 2) for r in range(N) for k in range(K))
    calls = []
    for ignore in (False, True):
        for agg in ("valid_count", "sum", "mean"):
            calls.append((agg, ignore, ("none",), (K, "pow2", pat, "nan")))
            calls.append((agg, ignore, ("array", tuple("PPMP"), "nan"), (K, "pow2", tuple([False] * (N * K)), "pair-huge")))
    for data in (itertools.product((0, E // 2, E - 1), repeat=N) if only_data is None else [tuple(only_data)]):
        if len(set(data)) == 1 and data[0] == E // 2:
            continue
        dense = numpy.array(data, dtype=numpy.int64)
        cells = M.cell_rows([dense], (E,), N)
        idx = M.build_index(dense, 0)
        for call in (calls if only_call is None else [only_call]):
            agg, ignore, ws, fs = call
            f_arg, x, valid, Kc, w_arg, w, wok = c03.realise(N, ws, fs)
            grand = Q.grand_total(x, w, N, Kc)
            evals, emiss = Q.oracle(agg, cells, (E,), N, Kc, x, valid, w, wok, ignore)
            base = {"wide1": E, "data": list(data), "E": E, "agg": agg, "ignore": ignore, "weights": ws, "fact": fs}
            for dt in (numpy.int64, numpy.uint8 if E <= 256 else numpy.uint16):
                check_formats("xcube", lambda: xcube([dense.astype(dt)], interacting_shape=(E,)), call, N, evals, emiss, grand, acc, dict(base, cube="xcube", dtype=numpy.dtype(dt).name))
            check_formats("ccube", lambda: ccube([idx], interacting_shape=(E,)), call, N, evals, emiss, grand, acc, dict(base, cube="ccube"))
            acc.case(("wide1", E, data, agg, ignore, ws, fs), nontrivial=True, outcome=("wide1", agg, ignore), sample=lambda: base)


def check_negative(acc, only=None):
    """Negative weights are legal numbers: a cell whose weights total a NEGATIVE value is not missing (only an exact zero total makes a mean
    missing); every data vector of (D=1, N=3) and (D=2, N=2) x every weight pattern over {positive, negative, zero} x every aggregate."""
    from catii.ccubes import ccube
    from catii.xcubes import xcube

    for D, N in ((1, 3), (2, 2)):
        E = 2
        none = tuple([False] * N)
        fss = [None, (0, "pow2", none, "nan"), (2, "mixed", tuple([False] * (2 * N)), "pair-huge"), (0, "pow2", tuple(r == 0 for r in range(N)), "nan")]
        wss = [("array", s, "nan") for s in itertools.product("PNZ", repeat=N) if "N" in s] + [("scalar", -2.0)]
        for datas in itertools.product(itertools.product(range(E), repeat=N), repeat=D):
            denses = [numpy.array(t, dtype=numpy.int64) for t in datas]
            shape = (E + 1,) * D
            cells = M.cell_rows(denses, shape, N)
            dims = {cs: [M.build_index(d, c) for d, c in zip(denses, cs)] for cs in itertools.product((0, 2), repeat=D)}
            for ws in wss:
                for fs in fss:
                    for agg in (("count",) if fs is None else ("sum", "mean", "valid_count")):
                        for ignore in (False, True):
                            call = (agg, ignore, ws, fs)
                            base = {"negative": True, "data": [list(t) for t in datas], "E": E, "agg": agg, "ignore": ignore, "weights": ws, "fact": fs}
                            if only is not None and (base["data"], agg, ignore, list(ws[1]) if ws[0] == "array" else ws[1]) != only:
                                continue
                            f_arg, x, valid, K, w_arg, w, wok = c03.realise(N, ws, fs)
                            grand = Q.grand_total(x, w, N, K)
                            evals, emiss = Q.oracle(agg, cells, shape, N, K, x, valid, w, wok, ignore)
                            check_formats("xcube", lambda: xcube(denses, interacting_shape=shape), call, N, evals, emiss, grand, acc, dict(base, cube="xcube"))
                            for cs, dd in dims.items():
                                check_formats("ccube", lambda: ccube(dd, interacting_shape=shape), call, N, evals, emiss, grand, acc, dict(base, cube="ccube", commons=list(cs)))
                            acc.case(("neg", tuple(datas), agg, ignore, ws, fs), nontrivial=True, outcome=("neg", agg, ignore, int(emiss.sum())), sample=lambda: base)


def check_single_precision(acc, only=None):
    """Every data vector of (D=1, N=3) and (D=2, N=2) x a short call menu with the facts and weights in float32."""
    from catii.ccubes import ccube
    from catii.xcubes import xcube

    for D, N in ((1, 3), (2, 2)):
        E = 2
        for datas in itertools.product(itertools.product(range(E), repeat=N), repeat=D):
            denses = [numpy.array(t, dtype=numpy.int64) for t in datas]
            shape = (E + 1,) * D
            cells = M.cell_rows(denses, shape, N)
            dims = [M.build_index(d, 0) for d in denses]
            for call in c03.repr_calls(N):
                agg, ignore, ws, fs = call
                if ws[0] == "array" and "D" in ws[1]:
                    continue
                if fs is not None and fs[3] == "int":
                    continue
                f_arg, x, valid, K, w_arg, w, wok = c03.realise(N, ws, fs)
                grand = Q.grand_total(x, w, N, K)
                evals, emiss = Q.oracle(agg, cells, shape, N, K, x, valid, w, wok, ignore)
                base = {"float32": True, "data": [list(t) for t in datas], "E": E, "agg": agg, "ignore": ignore, "weights": ws, "fact": fs}
                if only is not None and (base["data"], agg, ignore) != only:
                    continue
                check_formats("xcube", lambda: xcube(denses, interacting_shape=shape), call, N, evals, emiss, grand, acc, dict(base, cube="xcube"), transform=_f32)
                check_formats("ccube", lambda: ccube(dims, interacting_shape=shape), call, N, evals, emiss, grand, acc, dict(base, cube="ccube"), transform=_f32)
                acc.case(("f32", tuple(datas), agg, ignore, ws, fs), nontrivial=True, outcome=("f32", agg, ignore), sample=lambda: base)


def run_block(family, p, acc):
    if family == "wide1":
        check_wide1(p["E"], acc)
        return
    if family == "float32":
        check_single_precision(acc)
        return
    if family == "negative":
        check_negative(acc)
        return
    if family == "residue":
        check_residue(p["i"], acc)
        return
    cfg = SETS[p["tier"]][p["si"]]
    N = p["N"]
    if family == "zero":
        check_zero(N, cfg, acc)
        return
    D, E = cfg["D"], cfg["E"]
    vecs = list(itertools.product(range(E), repeat=N))
    for datas in itertools.islice(itertools.product(vecs, repeat=D), p["a0"], p["a1"]):
        check_data(list(datas), E, N, cfg, acc)


def replay(case, site=None):
    from ..core import Acc

    acc = Acc(ID, [], stop_at_first=False)
    call = (case["agg"], case["ignore"], c03._tupleize(case["weights"]), c03._tupleize(case["fact"]) if case["fact"] is not None else None)
    cfg = dict(wl=0, Ks=[0], fl=1, forms=["nan"], vals=["pow2"], wforms=True)
    if "wide1" in case:
        check_wide1(case["wide1"], acc, only_call=call, only_data=case["data"])
    elif case.get("negative"):
        ws = case["weights"]
        check_negative(acc, only=(case["data"], case["agg"], case["ignore"], list(ws[1]) if ws[0] == "array" else ws[1]))
    elif case.get("float32"):
        check_single_precision(acc, only=(case["data"], case["agg"], case["ignore"]))
    elif "residue" in case:
        check_residue(case["residue"], acc, only_call=call, only_commons=case.get("commons"))
    elif not case["data"]:
        check_zero(case["N"], cfg, acc, only_call=call)
    else:
        datas = [tuple(t) for t in case["data"]]
        check_data(datas, case["E"], len(datas[0]), cfg, acc, only_call=call, only_commons=case.get("commons"))
    for v in acc.violations:
        print("  %s :: %s" % (v["site"], v["detail"][:700]))
    return bool(acc.violations)
