"""C12: a torn INDX file is always rejected (every cut point of every file)."""
import os

import numpy

from .. import indx

ID = "C12"
LEVEL = "fault_enumeration"


def describe(tier):
    return {
        "rule": "every file of the C10 input family (quick: arity 1..4, <=2 entries; thorough: <=3 entries) is written once by IndxIO.save - on an unbuffered file whose content is "
        "snapshotted at every method call on the file object and every source line executed in indxio.py - and then (i) every content a crash can leave between two snapshots "
        "(changed regions applied byte by byte, several regions in every order; truncations) other than the complete file, and (ii) EVERY prefix length k in 0..len-1 "
        "(os.truncate, longest first) is handed to IndxIO.load, which must raise. Every eighth file (and every seventh cut of the larger files) is also loaded through a handle opened for update, which must reject it and leave its length alone. Plus five larger files (4-17 KiB, one of exactly one page, one of 280 KiB) cut at every byte, and the file of every initial state of the C06 state graph (all dense arrays x all common values, 1-D/2-D/3-D). evaluations = crash points; "
        "a crash point is non-trivial when it lies beyond the 16-byte header (the prefix carries a valid magic and size word). Distinct = distinct (file bytes, k).",
        "bounds": {"cut_points": "all", "files": "C10 family"},
        "exhaustive": True,
        "assumptions": ["writes reach the file in program order, and within one observed step in ascending byte order per changed region (no block reordering by the file system)",
                        "the write path is observed at Python level (file-object method calls, source lines of indxio.py); several system calls inside one C-level call are one step", "files live on tmpfs"],
    }


# larger files (beyond one and two memory pages), cut at EVERY byte: a loader that treats small and large files differently,
# or that only accepts a cut at a page boundary, is not reached by the small family
LARGE = [
    ([(1,), (2,)], [list(range(0, 3000)), list(range(5))], 0),
    ([(300, 2), (7, 70000)], [list(range(0, 2200, 2)), list(range(1, 2100))], 5),
    ([(1, 1, 1)], [list(range(1024 - 7))], 2),          # 16 + payload = exactly one 4096-byte page
    ([(2 ** 33,)], [list(range(1500))], 1),
    ([(1,), (2,)], [list(range(0, 140000, 2)), list(range(5))], 0),     # 280 KiB: beyond 64 KiB / 256 KiB thresholds of chunked or buffered readers
]


def blocks(tier):
    return indx.family_blocks(tier) + [("large", {"i": i, "part": k}) for i in range(len(LARGE)) for k in range(8)] + [("index-states", {"tier": tier, "part": k}) for k in range(16)]


def tear(keys, arrays, common, acc, only_k=None):
    from catii.indxio import IndxIO

    case = {"keys": keys, "arrays": arrays, "common": common}
    path = os.path.join(indx.scratch_dir(), "t-%d.indx" % os.getpid())
    try:
        blob, log = indx.lib_save_logged(keys, arrays, common, path=path)
    except Exception:
        return 0, 0  # C10/C11 report save failures
    n = len(blob)
    if only_k is None or only_k == "write-path":
        check_write_path(log, blob, acc, case)
        if only_k == "write-path":
            return n, 0
        with open(path, "wb") as f:
            f.write(blob)
    ks = range(n - 1, -1, -1) if only_k is None else [only_k]
    if only_k is not None:
        with open(path, "wb") as f:
            f.write(blob)
    deep = 0
    # the COMPLETE file is loaded first (and its result dropped): a loader that remembers anything about an earlier successful load - a mapping
    # kept per descriptor number, a size cached per path - must still reject what is left after the file has been torn
    try:
        with open(path, "rb") as f:
            whole = IndxIO.load(f)
        del whole
    except Exception:
        pass  # C10 reports complete files that do not load
    # every eighth file is ALSO loaded through a handle opened for update ("r+b"): the torn file must be rejected and left as it is
    update_too = (n + len(keys) + common) % 8 == 0 or only_k is not None
    for k in ks:
        os.truncate(path, k)
        for mode in (("rb", "r+b") if update_too else ("rb",)):
            with open(path, mode) as f:
                try:
                    res = IndxIO.load(f)
                except Exception:
                    res = None
                else:
                    ents = {kk: numpy.array(v).tolist() for kk, v in res[0].items()}
                    res = None
                    acc.violation("load:accepted-torn-file", dict(case, cut=k, length=n, mode=mode), "load of the first %d of %d bytes (file opened %r) returned %r" % (k, n, mode, (ents,))[:600])
            if mode == "r+b" and os.path.getsize(path) != k:
                acc.violation("load:changed-torn-file", dict(case, cut=k, length=n, mode=mode), "loading the first %d bytes through an 'r+b' handle left a file of %d bytes" % (k, os.path.getsize(path)))
                os.truncate(path, k)
        if k > 16:
            deep += 1
    return n, deep


def check_write_path(log, blob, acc, case):
    """Crash states of the real write path that are NOT prefixes of the final file (a pre-sized file, a header patched afterwards, ...)."""
    from catii.indxio import IndxIO

    prefix_lengths, others = indx.crash_states(log, blob)
    acc.count("write_steps_observed", len(log) - 1)
    acc.count("non_prefix_crash_states", len(others))
    if not others:
        return
    path = os.path.join(indx.scratch_dir(), "w2-%d.indx" % os.getpid())
    for state, step in others.items():
        with open(path, "wb") as f:
            f.write(state)
        with open(path, "rb") as f:
            try:
                res = IndxIO.load(f)
            except Exception:
                continue
            ents = {kk: numpy.array(v).tolist() for kk, v in res[0].items()}
        acc.violation("load:accepted-crash-state-of-the-write-path", dict(case, cut="write-path", step=step, state_length=len(state), length=len(blob)),
                      "after %d of %d observed write steps a crash can leave %d bytes (not a prefix of the complete %d-byte file) that load accepts: %r" % (
                          step, len(log) - 1, len(state), len(blob), (ents, res[1]))[:600])
        return


def tear_range(keys, arrays, common, acc, part, nparts):
    """Every cut point k with k % nparts == part of one (large) file."""
    from catii.indxio import IndxIO

    path = os.path.join(indx.scratch_dir(), "L-%d.indx" % os.getpid())
    if part == 0:
        blob, log = indx.lib_save_logged(keys, arrays, common, path=path)
        check_write_path(log, blob, acc, {"keys": keys, "arrays": [[len(a)] for a in arrays], "large": True, "common": common})
    blob = indx.lib_save(keys, arrays, common, path=path)
    n = len(blob)
    cnt = 0
    for k in range(n - 1 - ((n - 1 - part) % nparts), -1, -nparts):
        os.truncate(path, k)
        cnt += 1
        for mode in (("rb", "r+b") if k % 7 == 0 else ("rb",)):
            with open(path, mode) as f:
                try:
                    res = IndxIO.load(f)
                except Exception:
                    res = None
                else:
                    nent = len(res[0])
                    res = None
                    acc.violation("load:accepted-torn-file", {"keys": keys, "arrays": [[len(a)] for a in arrays], "large": True, "common": common, "cut": k, "length": n, "mode": mode},
                                  "load of the first %d of %d bytes (file opened %r) returned %d entries" % (k, n, mode, nent))
            if mode == "r+b" and os.path.getsize(path) != k:
                acc.violation("load:changed-torn-file", {"keys": keys, "arrays": [[len(a)] for a in arrays], "large": True, "common": common, "cut": k, "length": n, "mode": mode},
                              "loading the first %d bytes through an 'r+b' handle left a file of %d bytes" % (k, os.path.getsize(path)))
                os.truncate(path, k)
    return cnt, 0


def run_block(family, p, acc):
    if family == "index-states":
        # the files of real indexes: every initial state of the C06 state graph (all dense arrays x all commons, 1-D, 2-D, 3-D)
        from .. import hist

        keys = hist.initial_keys(hist.BOUNDS[p["tier"]])
        for i, k in enumerate(keys):
            if i % 16 != p["part"]:
                continue
            shape, common, ents = k
            if common < 0:
                continue
            ckeys = [c for c, b, ds in ents]
            arrays = [numpy.frombuffer(b, dtype=numpy.dtype(ds)).tolist() for c, b, ds in ents]
            n, deep = tear(ckeys, arrays, common, acc)
            acc.count("files", 1)
            acc.count("crash_points", n)
            acc.evaluations += max(n - 1, 0)
            h0 = hash(k)
            for j in range(deep):
                acc._keys.add(hash((h0, j)))
            acc.case(("state", k), nontrivial=False, outcome=n, sample=lambda: {"index_state": hist.describe_key(k), "file_length": n})
        return
    if family == "large":
        keys, arrays, common = LARGE[p["i"]]
        keys = [tuple(k) for k in keys]
        n, deep = tear_range(keys, arrays, common, acc, p["part"], 8)
        acc.count("crash_points", n)
        acc.evaluations += n
        for j in range(n):
            acc._keys.add(hash(("large", p["i"], p["part"], j)))
        acc.case(("large", p["i"], p["part"]), nontrivial=False, outcome=("large", p["i"]), sample={"large_file": p["i"], "keys": keys, "row_id_lengths": [len(a) for a in arrays], "cuts": "every byte of slice %d/8" % p["part"]})
        return
    for keys, arrays, common in indx.cases_of_block(p):
        n, deep = tear(keys, arrays, common, acc)
        key = (tuple(keys), tuple(map(tuple, arrays)), common)
        acc.count("files", 1)
        acc.count("crash_points", n)
        acc.evaluations += n - 1 if n else 0
        # distinct non-trivial crash points: k > 16 of a distinct file
        h0 = hash(key)
        for j in range(deep):
            acc._keys.add(hash((h0, j)))
        acc.case(key, nontrivial=False, outcome=n, sample=lambda: {"keys": keys, "arrays": arrays, "common": common, "file_length": n, "cuts": "0..%d" % (n - 1)})


def replay(case, site=None):
    from ..core import Acc

    acc = Acc(ID, [], stop_at_first=False)
    if case.get("large"):
        for keys, arrays, common in LARGE:
            if [tuple(k) for k in keys] == [tuple(k) for k in case["keys"]]:
                tear_range([tuple(k) for k in keys], arrays, common, acc, 0 if case["cut"] == "write-path" else case["cut"] % 8, 8)
        hits = [v for v in acc.violations if v["case"]["cut"] == case["cut"]]
        for v in hits:
            print("  %s :: %s" % (v["site"], v["detail"][:300]))
        return bool(hits)
    tear([tuple(k) for k in case["keys"]], case["arrays"], case["common"], acc, only_k=case.get("cut"))
    for v in acc.violations:
        print("  %s :: %s" % (v["site"], v["detail"][:400]))
    return bool(acc.violations)
