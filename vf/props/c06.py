"""C06: index operations track NumPy on the dense array over any history (hist engine)."""
from .. import hist, histprop

ID = "C06"
LEVEL = "model_checking"


def describe(tier):
    b = hist.BOUNDS[tier]
    return {
        "rule": "explicit-state BFS to a fixpoint over ALL reachable concrete index states with rows <= %d (1-D: %s), columns in {none,1..%d}, values {0,1,2} "
        "(collapsed may add -1, shift_common(3) the absent common), from every dense array x every common 0..3 (3 = absent) and 3-D arrays for slicing. Transitions: "
        "shift_common()/(v), append(every operand of 0..R-rows rows x every common), update(every single-cell assignment incl. to the common value; a two-cell menu), "
        "filtered(every mask), sliced(int | every repetition-free order list | None per axis), slices1d, reindexed(default, identity, swap, many-to-one, partial, onto "
        "the common, common onto a listed value, rotation) x copy, collapsed(every precedence list over {-1,0,1,2} up to length %d), copy, column_stack(every partner x "
        "every common x new_common x copy x order), union/intersection/difference_update (entry-wise set algebra within the exclusivity precondition), INDX save+load, "
        "from_array(to_array()); observations get/items/to_dict(force=True), common_rowids. Each transition runs the real method on an object rebuilt from the state "
        "key and compares to_array(dtype=int) and an independent reader with the NumPy model; operands byte-identical; copies share no storage. "
        "From every state additionally: read through every reader (slices1d, to_array, items, to_dict, common_rowids, abscissae, sparsity, a count cube), change the SAME object in place "
        "(shift_common every way, append, single-cell update) and read through every reader again - anything the index memoises must follow the change. Beyond the graph: update / union_update / difference_update with the row ids given as list, tuple / range, int64, int32, strided, reversed-view and read-only arrays "
        "over every row subset of two small indexes; and indexes of 128 / 129 / 300 / 1025 columns and 20 000 / 70 000 rows through shift_common, filtered, append, reindexed, update, sliced, slices1d, collapsed and column_stack once each. "
        "Violating transitions are reported and not expanded." % (b["R"], b.get("R1", b["R"]), b["C"], b["prec_max"]),
        "assumptions": [
            ("thorough tier: states with more than 4 cells are expanded only while their values stay inside {0,1,2} (every transition into a state outside that bound is still checked); "
             "without this value bound every array over five values becomes reachable for the (3,2) and (2,3) shapes") if b.get("value_bound_cells") else "quick tier: no value bound - every reachable state is expanded",
            "the visited key is the concrete content up to dict insertion order" + (" (thorough: every state is also expanded with entries inserted in reverse order and successor sets must coincide)" if b.get("two_orders") else ""),
            "set-update operands respect the documented exclusivity precondition (a union only adds rows currently holding the common value in that column)",
        ],
    }


def extras(res, tier):
    from .. import bigops

    return bigops.parts("C06")


def main(tier, all_violations=False, t0=None):
    return histprop.run(__import__("vf.props.c06", fromlist=["x"]), tier, all_violations, t0, extra=extras)


def replay(case, site=None):
    return histprop.replay(case)
