"""C14: walk presents exactly the non-empty uncommon and marginal intersections."""
import itertools
from collections import Counter

import numpy

from .. import models as M

ID = "C14"
LEVEL = "exploration"

QUICK = [(1, 3, 2), (2, 3, 2), (3, 3, 2), (4, 2, 2), (1, 0, 2), (2, 0, 2), (3, 0, 2)]
THOROUGH = QUICK + [(1, 4, 3), (2, 4, 2), (2, 3, 3), (3, 3, 3), (3, 4, 2), (4, 3, 2)]


def describe(tier):
    cfg = QUICK if tier == "quick" else THOROUGH
    return {
        "rule": "empty-entry family: 1..3 dimensions (2 rows) where one dimension additionally carries an explicitly empty entry - nothing may be presented for it; long family: N=18(24) rows, one dimension holding a contiguous run of 8..10(17) rows of one category and another with 1-2 sparse rows, both orders and a 3-dimension variant; populous family: 17..70(260) rows under every ordered pair (and four triples) of six row patterns (constant, r mod 2, r mod 3, a mixing pattern, halves, reversed r mod 3) so that every cell holds many rows, three choices of common values (every third case also with every stored row-id array as a non-contiguous view); HIGH family: 1-3 dimensions of 2^32 rows with entries at 0, 1, 7, 2^31-1, 2^31, 2^32-3 .. 2^32-1; MANY family: 1500-4000 (20000) rows over dimensions of 70 / 150 / 200 categories crossed with small ones, 1-3 dimensions; and for each (D dims, N rows, E categories) in %r: every data vector over {0..E-1} per dimension and every common value in 0..E per "
        "dimension (E = absent); the log of (coords, rows) delivered to interactions() and to two callbacks of walk([f, g]) must equal, as a multiset, "
        "{(c, rows(c)) : c in prod(uncommon_d u {-1}) minus all -1, rows(c) non-empty}; each row array strictly increasing uint32. "
        "Non-trivial: D >= 2 and at least one expected combination mixing a marginal and an uncommon coordinate. Distinct = distinct (data, commons)." % (cfg,),
        "bounds": {"configs": cfg},
        "exhaustive": True,
        "assumptions": ["dimensions are well-formed one-axis indexes built by the harness builder (no empty entries)"],
    }


def dim_opts(N, E):
    out = []
    for t in itertools.product(range(E), repeat=N):
        for c in range(E + 1):
            out.append((t, c))
    return out


LONG_N = {"quick": 18, "thorough": 24}
LONG_LENS = {"quick": [8, 9, 10], "thorough": [8, 9, 10, 16, 17]}


def long_cases(tier):
    """Two one-axis dimensions over N rows: one holds a long contiguous run of a category, the other 1-2 sparse rows
    (the shape a block-skipping intersection is written for); both orders."""
    N = LONG_N[tier]
    out = []
    for ln in LONG_LENS[tier]:
        for a in range(0, N - ln + 1):
            run = tuple(1 if a <= r < a + ln else 0 for r in range(N))
            out.append(run)
    return out


# Many rows per cell (every cell holds 5..40 rows): a walk that groups rows by sorting / bucketing instead of merging must still deliver
# increasing row ids; NumPy's sorts change algorithm at 16 elements.
POP_N = {"quick": [17, 18, 33, 40, 70], "thorough": [17, 18, 33, 40, 70, 130, 260]}
POP_PATTERNS = {
    "const1": lambda r, N: 1,
    "mod2": lambda r, N: r % 2,
    "mod3": lambda r, N: r % 3,
    "mix": lambda r, N: (r * 7) % 5 % 3,
    "halves": lambda r, N: 1 if r < N // 2 else 2,
    "rev3": lambda r, N: (N - r) % 3,
}


MANY_N = {"quick": [1500, 4000], "thorough": [1500, 4000, 20000]}
MANY_PATTERNS = {
    "cats70": lambda r, N: (r * 7) % 70,
    "cats150": lambda r, N: (r * 11 + r // 13) % 150,
    "cats200": lambda r, N: (r * 3 + r // 7) % 200,
    "cats3": lambda r, N: (r // 5) % 3,
    "cats5": lambda r, N: (r * 2 + r // 3) % 5,
}


def many_cases(tier):
    out = []
    for N in MANY_N[tier]:
        for pats in (("cats3", "cats150"), ("cats150", "cats3"), ("cats70", "cats200"), ("cats3", "cats150", "cats200"), ("cats5", "cats70", "cats3"), ("cats200",)):
            out.append((N, pats))
    return out


# row ids at the top of the uint32 range (an index only stores uncommon rows, so 2^32 rows cost nothing): arithmetic on row ids must not wrap
HIGH_ROWS = [0, 1, 7, 2 ** 31 - 1, 2 ** 31, 2 ** 32 - 3, 2 ** 32 - 2, 2 ** 32 - 1]


def check_high(acc):
    from catii.ccubes import ccube
    from catii.iindexes import iindex

    N = 2 ** 32
    picks = [HIGH_ROWS, HIGH_ROWS[3:], HIGH_ROWS[:2] + HIGH_ROWS[-2:], HIGH_ROWS[-1:], HIGH_ROWS[:-1]]
    n = 0
    for D in (1, 2, 3):
        for combo in itertools.product(range(len(picks)), repeat=D):
            # dimension d: category 1 on picks[combo[d]], category 2 on two fixed rows, everything else common (0)
            ents = []
            for d, pi in enumerate(combo):
                rows1 = picks[pi]
                rows2 = [r for r in (5, 2 ** 32 - 1 - d) if r not in rows1]
                e = {(1,): numpy.array(rows1, dtype=numpy.uint32)}
                if rows2:
                    e[(2,)] = numpy.array(sorted(rows2), dtype=numpy.uint32)
                ents.append(e)
            case = {"high_rowids": True, "dims": [{str(k[0]): v.tolist() for k, v in e.items()} for e in ents]}
            groups = {}
            allrows = sorted(set(r for e in ents for v in e.values() for r in v.tolist()))
            for r in allrows:
                vals = [next((k[0] for k, v in e.items() if r in set(v.tolist())), 0) for e in ents]
                free = [d for d in range(D) if vals[d] != 0]
                for k in range(1, len(free) + 1):
                    for sub in itertools.combinations(free, k):
                        groups.setdefault(tuple(vals[d] if d in sub else -1 for d in range(D)), []).append(r)
            exp = Counter((c, tuple(rs)) for c, rs in groups.items())
            try:
                dims = [iindex({k: v.copy() for k, v in e.items()}, 0, (N,)) for e in ents]
                log = ccube(dims).interactions()
            except Exception as e:  # noqa
                acc.violation("walk:raised", case, repr(e))
                continue
            got = Counter((tuple(int(x) for x in c), tuple(numpy.asarray(r).tolist())) for c, r in log)
            if got != exp:
                acc.violation("walk:multiset", case, "missing %r; unexpected/duplicated %r" % (sorted((exp - got).elements())[:4], sorted((got - exp).elements())[:4]))
            n += 1
            acc.case(("high", combo), nontrivial=D >= 2, outcome=("high", D, len(exp)), sample=case)
    return n


def populous_cases(tier):
    names = sorted(POP_PATTERNS)
    out = []
    for N in POP_N[tier]:
        for a in names:
            for b in names:
                out.append((N, (a, b)))
        for t in (("mod2", "mod3", "mix"), ("mix", "halves", "mod3"), ("const1", "rev3", "mod2"), ("mod3", "const1", "rev3")):
            out.append((N, t))
    return out


def blocks(tier):
    cfg = QUICK if tier == "quick" else THOROUGH
    out = [("long", {"tier": tier, "i": i}) for i in range(len(long_cases(tier)))]
    out += [("populous", {"tier": tier, "i": i}) for i in range(len(populous_cases(tier)))]
    out += [("many", {"tier": tier, "i": i}) for i in range(len(many_cases(tier)))]
    out.append(("high", {}))
    out += [("emptyentry", {"D": D, "pos": pos}) for D in (1, 2, 3) for pos in range(D)]
    for D, N, E in cfg:
        n0 = len(dim_opts(N, E))
        rest = n0 ** (D - 1)
        step = max(1, 1500 // rest)
        for a in range(0, n0, step):
            out.append(("walk", {"D": D, "N": N, "E": E, "a0": a, "a1": min(n0, a + step)}))
    return out


def expected(datas, commons):
    N = len(datas[0])
    axes = []
    for t, c in zip(datas, commons):
        axes.append(sorted(set(v for v in t if v != c)) + [-1])
    exp = Counter()
    for coords in itertools.product(*axes):
        if all(x == -1 for x in coords):
            continue
        rows = tuple(r for r in range(N) if all(x == -1 or datas[d][r] == x for d, x in enumerate(coords)))
        if rows:
            exp[(coords, rows)] += 1
    return exp


def expected_fast(datas, commons):
    """The same multiset, grouped row by row (O(rows x 2^D)): for many rows and many categories."""
    N = len(datas[0])
    D = len(datas)
    groups = {}
    for r in range(N):
        vals = [datas[d][r] for d in range(D)]
        free = [d for d in range(D) if vals[d] != commons[d]]      # a row can only match an uncommon coordinate it holds
        for k in range(1, len(free) + 1):
            for sub in itertools.combinations(free, k):
                coords = tuple(vals[d] if d in sub else -1 for d in range(D))
                groups.setdefault(coords, []).append(r)
    exp = Counter()
    for coords, rows in groups.items():
        exp[(coords, tuple(rows))] += 1
    return exp


def check(datas, commons, acc, case, fast=False, layout=None):
    from catii.ccubes import ccube

    dims = [M.build_index(numpy.array(t, dtype=numpy.int64), c) for t, c in zip(datas, commons)]
    if layout == "strided-entries":
        # every stored row-id array as a non-contiguous view (legal: validate() accepts it, to_array() reads it)
        for d in dims:
            for k in list(dict.keys(d)):
                a = dict.__getitem__(d, k)
                big = numpy.zeros(2 * len(a) + 1, dtype=numpy.uint32)
                big[::2][:len(a)] = a
                dict.__setitem__(d, k, big[::2][:len(a)])
    elif layout == "read-only-entries":
        # row ids the caller has frozen (arr.flags.writeable = False): a walk only ever reads them
        for d in dims:
            for k in list(dict.keys(d)):
                a = dict.__getitem__(d, k).copy()
                a.flags.writeable = False
                dict.__setitem__(d, k, a)
    elif layout == "loaded-from-indx":
        # dimensions rebuilt from what IndxIO.load returns (views of a read-only mapping of the file)
        from .c03 import _through_indx

        dims = [_through_indx(d) for d in dims]
    exp = expected_fast(datas, commons) if fast else expected(datas, commons)
    try:
        cube = ccube(dims)
        inter = cube.interactions()
        log1, log2 = [], []
        ccube(dims).walk([lambda c, r: log1.append((c, r)), lambda c, r: log2.append((c, r))])
        log3 = []
        ccube(dims).walk(lambda c, r: log3.append((c, r)))
        # the SAME cube object walked again (what one walk leaves on the cube must not show in the next)
        log4 = []
        cube.walk(lambda c, r: log4.append((c, r)))
        inter2 = cube.interactions()
    except Exception as e:  # noqa
        acc.violation("walk:raised", case, repr(e))
        return exp
    logs = [("interactions", inter), ("walk[f,g].f", log1), ("walk[f,g].g", log2), ("walk(f)", log3), ("walk(f) on the cube already walked", log4), ("interactions() again", inter2)]
    for name, log in logs:
        got = Counter()
        for coords, rows in log:
            rows = numpy.asarray(rows)
            if rows.dtype != numpy.uint32:
                acc.violation("walk:rowid-dtype", dict(case, via=name), "rows for %r have dtype %s" % (coords, rows.dtype))
            rl = rows.tolist()
            if any(b <= a for a, b in zip(rl, rl[1:])):
                acc.violation("walk:rows-not-increasing", dict(case, via=name), "%r -> %r" % (coords, rl))
            got[(tuple(int(x) for x in coords), tuple(rl))] += 1
        if got != exp:
            missing = sorted((exp - got).elements())
            extra = sorted((got - exp).elements())
            acc.violation("walk:multiset", dict(case, via=name), "missing %r; unexpected/duplicated %r" % (missing[:6], extra[:6]))
    return exp


def check_with_empty_entry(datas, commons, pos, acc):
    """One dimension additionally carries an explicitly EMPTY entry for a category no row holds: nothing may be presented for it."""
    from catii.ccubes import ccube

    dims = [M.build_index(numpy.array(t, dtype=numpy.int64), c) for t, c in zip(datas, commons)]
    extra = max(max(datas[pos]) if datas[pos] else 0, commons[pos]) + 1
    dims[pos][(extra,)] = numpy.array([], dtype=numpy.uint32)
    case = {"data": [list(t) for t in datas], "commons": commons, "empty_entry": [pos, extra]}
    exp = expected(datas, commons)
    for name, run in (("interactions", lambda: ccube(dims).interactions()),):
        try:
            log = run()
        except Exception as e:  # noqa
            acc.violation("walk:raised", case, repr(e))
            return exp
        got = Counter((tuple(int(x) for x in c), tuple(numpy.asarray(r).tolist())) for c, r in log)
        if got != exp:
            acc.violation("walk:multiset", dict(case, via=name), "missing %r; unexpected/duplicated %r" % (sorted((exp - got).elements())[:6], sorted((got - exp).elements())[:6]))
    return exp


def run_block(family, p, acc):
    if family == "emptyentry":
        D, pos = p["D"], p["pos"]
        opts = dim_opts(2, 2)
        for combo in itertools.product(opts, repeat=D):
            datas = [t for t, c in combo]
            commons = [c for t, c in combo]
            exp = check_with_empty_entry(datas, commons, pos, acc)
            acc.case(("empty", pos, tuple(datas), tuple(commons)), nontrivial=D >= 2, outcome=("empty", D, len(exp)), sample={"data": [list(t) for t in datas], "commons": commons, "empty_entry_in_dim": pos})
        return
    if family == "high":
        check_high(acc)
        return
    if family == "many":
        N, pats = many_cases(p["tier"])[p["i"]]
        datas = [tuple(MANY_PATTERNS[n](r, N) for r in range(N)) for n in pats]
        for commons in ([0] * len(pats), [1] + [0] * (len(pats) - 1)):
            case = {"many": [N, list(pats)], "commons": commons}
            exp = check(datas, commons, acc, case, fast=True)
            acc.case(("many", N, pats, tuple(commons)), nontrivial=True, outcome=("many", len(pats), len(exp) > 1000), sample=case)
        return
    if family == "populous":
        N, pats = populous_cases(p["tier"])[p["i"]]
        datas = [tuple(POP_PATTERNS[n](r, N) for r in range(N)) for n in pats]
        for commons in ([0] * len(pats), [2] + [0] * (len(pats) - 1), [0] * (len(pats) - 1) + [1]):
            case = {"data": [list(t) for t in datas], "commons": commons, "populous": [N, list(pats)]}
            exp = check(datas, commons, acc, case)
            lay = ("strided-entries", "read-only-entries", "loaded-from-indx")[p["i"] % 3]
            check(datas, commons, acc, dict(case, layout=lay), layout=lay)
            acc.case((tuple(datas), tuple(commons)), nontrivial=True, outcome=("populous", len(pats), len(exp)), sample={"rows": N, "patterns": list(pats), "commons": commons})
        return
    if family == "long":
        tier = p["tier"]
        N = LONG_N[tier]
        run = long_cases(tier)[p["i"]]
        for k in (1, 2):
            for rows in itertools.combinations(range(N), k):
                probe = tuple(1 if r in rows else 0 for r in range(N))
                for datas, commons in (([run, probe], [0, 0]), ([probe, run], [0, 0]), ([run, probe], [2, 0]), ([probe, run, probe], [0, 2, 0])):
                    case = {"data": [list(t) for t in datas], "commons": commons}
                    exp = check(datas, commons, acc, case)
                    acc.case((tuple(datas), tuple(commons)), nontrivial=True, outcome=("long", len(exp)), sample=case)
        return
    D, N, E = p["D"], p["N"], p["E"]
    opts = dim_opts(N, E)
    nth = 0
    for combo in itertools.product(opts[p["a0"]:p["a1"]], *([opts] * (D - 1))):
        datas = [t for t, c in combo]
        commons = [c for t, c in combo]
        case = {"data": [list(t) for t in datas], "commons": commons}
        exp = check(datas, commons, acc, case)
        nth += 1
        if D >= 2 and nth % 16 == 0:
            lay = ("read-only-entries", "loaded-from-indx", "strided-entries")[(nth // 16) % 3]
            check(datas, commons, acc, dict(case, layout=lay), layout=lay)
        mixed = any(any(x == -1 for x in c) and any(x != -1 for x in c) for c, _ in exp)
        acc.case((tuple(datas), tuple(commons)), nontrivial=D >= 2 and mixed, outcome=(D, len(exp)), sample=case)


def replay(case, site=None):
    from ..core import Acc

    acc = Acc(ID, [], stop_at_first=False)
    if case.get("high_rowids"):
        check_high(acc)
        acc.violations[:] = [v for v in acc.violations if v["case"].get("dims") == case.get("dims")]
    elif case.get("many"):
        N, pats = case["many"]
        datas = [tuple(MANY_PATTERNS[n](r, N) for r in range(N)) for n in pats]
        check(datas, case["commons"], acc, case, fast=True)
    elif case.get("empty_entry"):
        check_with_empty_entry([tuple(t) for t in case["data"]], case["commons"], case["empty_entry"][0], acc)
    else:
        check([tuple(t) for t in case["data"]], case["commons"], acc, case, layout=case.get("layout"))
    for v in acc.violations:
        print("  %s :: %s" % (v["site"], v["detail"][:600]))
    return bool(acc.violations)
