"""C03: index cube, array cube and a direct per-cell group-by agree on count / valid_count / sum / mean."""
import itertools

import numpy

from .. import cubes as Q
from .. import models as M

ID = "C03"
LEVEL = "exploration"

AGGS = ("count", "valid_count", "sum", "mean")

# D, Ns, E, wl (weight level), Ks (fact columns; 0 = 1-D fact), fl (pattern level), forms (fact forms), vals (value tables), wforms
SETS = {
    "quick": [
        dict(D=0, Ns=[0, 1, 2, 3], E=2, wl=2, Ks=[0, 2, 3], fl=1, forms=["nan", "pair-huge", "int"], vals=["pow2"], wforms=True),
        dict(D=1, Ns=[0, 1], E=2, wl=3, Ks=[0, 2, 3], fl=2, forms=["nan", "pair-nan", "pair-huge", "int"], vals=["pow2", "mixed"], wforms=True),
        dict(D=1, Ns=[2], E=2, wl=2, Ks=[0, 2], fl=2, forms=["nan", "pair-huge", "int"], vals=["pow2"], wforms=True),
        dict(D=1, Ns=[3], E=2, wl=1, Ks=[0, 2], fl=1, forms=["nan"], vals=["pow2"], wforms=False),
        dict(D=2, Ns=[1], E=2, wl=2, Ks=[0, 2], fl=1, forms=["nan", "int"], vals=["pow2"], wforms=False),
        dict(D=2, Ns=[2], E=2, wl=1, Ks=[0, 2], fl=1, forms=["nan"], vals=["pow2"], wforms=False),
        dict(D=2, Ns=[3], E=2, wl=0, Ks=[0], fl=1, forms=["nan"], vals=["pow2"], wforms=False),
        dict(D=3, Ns=[1], E=2, wl=1, Ks=[0], fl=1, forms=["pair-nan"], vals=["pow2"], wforms=False),
        dict(D=3, Ns=[2], E=2, wl=0, Ks=[0], fl=1, forms=["pair-nan"], vals=["pow2"], wforms=False),
    ],
    "thorough": [
        dict(D=0, Ns=[0, 1, 2, 3], E=2, wl=3, Ks=[0, 2, 3], fl=2, forms=["nan", "pair-nan", "pair-huge", "int"], vals=["pow2", "mixed"], wforms=True),
        dict(D=1, Ns=[0, 1, 2, 3], E=2, wl=3, Ks=[0, 2], fl=2, forms=["nan", "pair-nan", "pair-huge", "int"], vals=["pow2", "mixed"], wforms=True),
        dict(D=1, Ns=[4], E=3, wl=1, Ks=[0, 2], fl=1, forms=["nan", "int"], vals=["pow2"], wforms=False),
        dict(D=2, Ns=[1, 2], E=2, wl=3, Ks=[0, 2], fl=2, forms=["nan", "pair-huge", "int"], vals=["pow2", "mixed"], wforms=True),
        dict(D=2, Ns=[3], E=2, wl=2, Ks=[0, 2], fl=1, forms=["nan", "pair-huge"], vals=["pow2"], wforms=False),
        dict(D=2, Ns=[3], E=3, wl=1, Ks=[0], fl=1, forms=["nan"], vals=["pow2"], wforms=False),
        dict(D=3, Ns=[1, 2], E=2, wl=2, Ks=[0, 2], fl=1, forms=["nan", "int"], vals=["pow2"], wforms=False),
        dict(D=3, Ns=[3], E=2, wl=1, Ks=[0], fl=1, forms=["nan"], vals=["pow2"], wforms=False),
    ],
}


def describe(tier):
    return {
        "rule": "for each set (D dims, rows N, E categories): EVERY data vector per dimension and EVERY common value 0..E per dimension (E = absent) for the "
        "index cube; the array cube from the same dense data as int64 and int8 with explicit shape and as the minimal unsigned dtype with inferred shape (WIDE cubes: every of int8/16/32, uint16/32 that holds the values); x every call: "
        "aggregate in {count, valid_count, sum, mean} x ignore_missing x weight spec (none, scalar 2/0/NaN, arrays over {positive,0,missing}^N, (values,validity) "
        "forms with NaN/1e300 hidden) x fact spec (1-D or 2/3 columns, NaN-marked / (float,validity) hidden NaN or 1e300 / (int64,validity), missing patterns). "
        "All three (index cube, array cube, per-cell group-by in plain Python) must agree: missing cells exactly, values within 1e-9 x grand total; zero-dim "
        "compared as a single cell. Plus WIDE cubes (extents such as (4,100), (3,86), (257,), (3,40000), (65537,), (2,3,50)) whose cell counts and strides cross the 255/256 and 65535/65536 coordinate-width boundaries, with every data vector over boundary categories for N<=3, sparse comparison. evaluations = library cube evaluations. Non-trivial: a call with weights or a missing fact value on a cube with >=1 dimension "
        "where some dimension's common value has rows and another value is present. Distinct = distinct (data, commons, call).",
        "bounds": {"sets": SETS[tier]},
        "exhaustive": True,
        "assumptions": [
            "weights below the library's documented zero-snapping threshold (adjust_zeros / isclose, 1e-8) are outside the alphabet",
            "fact values are powers of two (distinct exactly representable subset sums) or a small mixed table with 0 and negatives",
        ],
    }


def calls(N, cfg):
    """Yield (agg, ignore, wspec, factspec or None)."""
    wspecs = Q.weight_specs(N, cfg["wl"])
    if not cfg["wforms"]:
        wspecs = [w for w in wspecs if w[0] != "array" or w[2] == "nan"]
    for ignore in (False, True):
        for ws in wspecs:
            yield ("count", ignore, ws, None)
    facts = []
    for K in cfg["Ks"]:
        pats = Q.fact_patterns(N, K, cfg["fl"])
        for vi in cfg["vals"]:
            for fi, form in enumerate(cfg["forms"]):
                # secondary forms / value tables get the reduced pattern list
                pp = pats if (fi == 0 and vi == cfg["vals"][0]) else Q.fact_patterns(N, K, 1)[:: 2 if K else 1]
                for p in pp:
                    facts.append((K, vi, p, form))
    for agg in ("valid_count", "sum", "mean"):
        for ignore in (False, True):
            for ws in wspecs:
                # with secondary fact forms only a reduced weight list
                for fs in facts:
                    primary = fs[3] == cfg["forms"][0] and fs[1] == cfg["vals"][0]
                    if not primary and ws[0] == "array" and ("Z" in ws[1] and "M" in ws[1]):
                        continue
                    yield (agg, ignore, ws, fs)


# wide cubes: total cell counts / strides crossing the 255/256 and 65535/65536 coordinate-width boundaries of the array cube
WIDE = [
    ((4, 100), [[0, 3], [0, 99]]),
    ((2, 100), [[0, 1], [0, 99]]),          # 200 cells: upper half of the uint8 range (an int8 dimension is as wide as the coordinate type)
    ((2, 20000), [[0, 1], [0, 19999]]),     # 40000 cells: upper half of the uint16 range
    ((3, 86), [[0, 2], [0, 85]]),
    ((2, 128), [[0, 1], [0, 127]]),
    ((257,), [[0, 255, 256]]),
    ((256,), [[0, 254, 255]]),
    ((3, 40000), [[0, 2], [0, 39999]]),
    ((2, 32768), [[0, 1], [0, 32767]]),
    ((65537,), [[0, 65535, 65536]]),
    ((2, 3, 50), [[0, 1], [0, 2], [0, 49]]),
]


def blocks(tier):
    out = [("wide", {"tier": tier, "wi": i}) for i in range(len(WIDE))]
    out += [("scale", {"N": N, "design": g}) for N in SCALE_NS[tier] for g in (0, 1, 2)]
    out += [("repr", {"D": D, "N": N, "a": a}) for D, N in ((1, 3), (2, 2), (2, 3)) for a in range(0, (2 ** N) ** D, 8)]   # every data vector over two categories
    for si, cfg in enumerate(SETS[tier]):
        for N in cfg["Ns"]:
            if cfg["D"] == 0:
                out.append(("zero", {"tier": tier, "si": si, "N": N}))
                continue
            ndata = (cfg["E"] ** N) ** cfg["D"]
            ncalls = sum(1 for _ in calls(N, cfg))
            per = max(1, 6000 // max(1, ncalls * (3 ** cfg["D"] + 2)))
            for a in range(0, ndata, per):
                out.append(("set", {"tier": tier, "si": si, "N": N, "a0": a, "a1": min(ndata, a + per)}))
    return out


def realise(N, ws, fs):
    w_arg, w, wok = Q.make_weights(N, ws)
    if fs is None:
        return None, None, None, 0, w_arg, w, wok
    K, vi, pat, form = fs
    f_arg, x, valid = Q.make_fact(N, K, vi, pat, form)
    return f_arg, x, valid, K, w_arg, w, wok


def check_data(datas, E, N, cfg, acc, only_call=None, only_commons=None):
    """datas: list of D tuples of N category values."""
    from catii.ccubes import ccube
    from catii.xcubes import xcube

    D = len(datas)
    denses = [numpy.array(t, dtype=numpy.int64) for t in datas]
    shape = (E + 1,) * D
    cells = M.cell_rows(denses, shape, N)
    xin = [Q.unsigned_view(d) for d in denses]
    x_inferred_shape = tuple((int(d.max()) + 1) if d.size else 0 for d in denses)
    commons_list = list(itertools.product(range(E + 1), repeat=D))
    if only_commons is not None:
        commons_list = [tuple(only_commons)]
    dims_by_commons = {cs: [M.build_index(d, c) for d, c in zip(denses, cs)] for cs in commons_list}
    nt_cube = D >= 1 and any(len(set(t)) > 1 for t in datas)
    for call in (calls(N, cfg) if only_call is None else [only_call]):
        agg, ignore, ws, fs = call
        f_arg, x, valid, K, w_arg, w, wok = realise(N, ws, fs)
        grand = Q.grand_total(x, w, N, K)
        evals, emiss = Q.oracle(agg, cells, shape, N, K, x, valid, w, wok, ignore)
        base_case = {"data": [list(t) for t in datas], "E": E, "agg": agg, "ignore": ignore, "weights": ws, "fact": fs}
        nt = nt_cube and (ws[0] != "none" or (fs is not None and any(fs[2])))

        # array cube, int64, explicit shape
        def run(kind, thunk, ev, em, extra):
            try:
                f2, _, _, _, w2, _, _ = realise(N, ws, fs)  # fresh arguments for every evaluation
                res = thunk(f2, w2)
                v, m = Q.normalise(res, Q.PAIR)
            except Exception as e:  # noqa
                acc.violation("%s:%s:raised" % (kind, agg), dict(base_case, **extra), repr(e))
                return
            msg = Q.compare(v, m, ev, em, grand)
            if msg:
                acc.violation("%s:%s:differs" % (kind, agg), dict(base_case, **extra), msg)

        run("xcube", lambda f2, w2: Q.call_cube(xcube(denses, interacting_shape=shape), agg, f2, w2, ignore, Q.PAIR), evals, emiss, {"variant": "int64-explicit"})
        acc.count("xcube_evals")
        # a narrow SIGNED dtype, explicit shape ("any integer dtype")
        run("xcube", lambda f2, w2: Q.call_cube(xcube([d.astype(numpy.int8) for d in denses], interacting_shape=shape), agg, f2, w2, ignore, Q.PAIR), evals, emiss, {"variant": "int8-explicit"})
        acc.count("xcube_evals")
        # array cube from the unsigned dtype an index converts to, inferred shape (compared on its own shape)
        if N > 0:
            ev2, em2 = Q.oracle(agg, cells, x_inferred_shape, N, K, x, valid, w, wok, ignore)
            run("xcube", lambda f2, w2: Q.call_cube(xcube(xin), agg, f2, w2, ignore, Q.PAIR), ev2, em2, {"variant": "unsigned-inferred"})
            acc.count("xcube_evals")
        for cs in commons_list:
            dims = dims_by_commons[cs]
            run("ccube", lambda f2, w2: Q.call_cube(ccube(dims, interacting_shape=shape), agg, f2, w2, ignore, Q.PAIR), evals, emiss, {"commons": list(cs), "variant": "explicit"})
            acc.count("ccube_evals")
            acc.case((tuple(datas), cs, agg, ignore, ws, fs), nontrivial=nt and any(c in set(t) for c, t in zip(cs, datas)),
                     outcome=(agg, ignore, int(emiss.sum()) > 0, int((~emiss).sum()) > 0),
                     sample=lambda: dict(base_case, commons=list(cs)))
        # one cube object asked again after each in-place change of its first dimension (a cube holds its dimensions, not a snapshot)
        if D >= 1 and N >= 1 and only_commons is None:
            cs0 = commons_list[(hash((agg, ignore, "held")) % len(commons_list))]
            hdims = [M.build_index(d, c) for d, c in zip(denses, cs0)]
            try:
                held = ccube(hdims, interacting_shape=shape)
                f2, _, _, _, w2, _, _ = realise(N, ws, fs)
                Q.call_cube(held, agg, f2, w2, ignore, Q.PAIR)
                for label, apply, nd in Q.in_place_changes(hdims, denses):
                    if any(int(x) > E for x in nd[0].flat):
                        break
                    apply()
                    cells2 = M.cell_rows(nd, shape, N)
                    ev4, em4 = Q.oracle(agg, cells2, shape, N, K, x, valid, w, wok, ignore)
                    run("ccube", lambda f2, w2: Q.call_cube(held, agg, f2, w2, ignore, Q.PAIR), ev4, em4, {"commons": list(cs0), "variant": "same cube after " + label})
                    acc.count("ccube_evals")
            except Exception as e:  # noqa
                acc.violation("ccube:%s:raised" % agg, dict(base_case, commons=list(cs0), variant="same cube after an in-place change"), repr(e))
        # inferred ccube shape for one encoding per call (shape inference is orthogonal to the aggregate)
        cs = commons_list[(hash((agg, ignore)) % len(commons_list))]
        dims = dims_by_commons[cs]
        try:
            ishape = tuple(int(s) for s in ccube(dims).interacting_shape)
            ev3, em3 = Q.oracle(agg, cells, ishape, N, K, x, valid, w, wok, ignore)
            run("ccube", lambda f2, w2: Q.call_cube(ccube(dims), agg, f2, w2, ignore, Q.PAIR), ev3, em3, {"commons": list(cs), "variant": "inferred"})
            acc.count("ccube_evals")
        except Q.M.ModelError:
            acc.violation("ccube:inferred-shape", dict(base_case, commons=list(cs)), "inferred shape %r does not contain the data" % (ishape,))


# ----------------------------------------------------------------------------- other legal representations of the same arguments
REPR_CFG = dict(wl=1, Ks=[0, 2], fl=1, forms=["nan", "pair-huge", "int"], vals=["pow2"], wforms=False)
REPR_KINDS = ["float32", "read-only", "fortran", "strided", "int-weights", "list-dims", "int32-dims", "loaded-dims", "appended-dims", "filtered-dims", "sliced-dims", "reindexed-dims", "shifted-dims"]


def _each_array(arg, fn):
    if arg is None or isinstance(arg, (int, float)):
        return arg
    if isinstance(arg, tuple):
        return tuple(fn(a) for a in arg)
    return fn(arg)


def represent(kind, f_arg, w_arg, denses, ws):
    """-> (fact argument, weight argument, array-cube dimension list) or None when the representation does not apply."""
    dims = list(denses)
    if kind == "float32":
        if ws[0] == "array" and "D" in ws[1]:
            return None   # decimal weights are not the same numbers in single precision
        conv = lambda a: a.astype(numpy.float32) if a.dtype.kind == "f" else a  # noqa
        return _each_array(f_arg, conv), _each_array(w_arg, conv), dims
    if kind == "read-only":
        def ro(a):
            a = a.copy()
            a.flags.writeable = False
            return a
        return _each_array(f_arg, ro), _each_array(w_arg, ro), [ro(d) for d in dims]
    if kind == "fortran":
        if f_arg is None or numpy.asarray(f_arg[0] if isinstance(f_arg, tuple) else f_arg).ndim < 2:
            return None
        return _each_array(f_arg, numpy.asfortranarray), w_arg, [numpy.asfortranarray(d) for d in dims]
    if kind == "strided":
        def st(a):
            big = numpy.zeros((a.shape[0] * 2,) + a.shape[1:], dtype=a.dtype)
            big[::2] = a
            return big[::2]
        return _each_array(f_arg, st), _each_array(w_arg, st), [st(d) for d in dims]
    if kind == "int-weights":
        if ws != ("scalar", 2.0) and not (ws[0] == "array" and set(ws[1]) <= {"1"}):
            return None
        if ws[0] == "scalar":
            return f_arg, 2, dims
        return f_arg, _each_array(w_arg, lambda a: a.astype(numpy.int64) if a.dtype.kind == "f" else a), dims
    if kind == "list-dims":
        return f_arg, w_arg, [d.tolist() for d in dims]
    if kind == "int32-dims":
        return f_arg, w_arg, [d.astype(numpy.int32) for d in dims]
    if kind in ("appended-dims", "filtered-dims", "sliced-dims", "reindexed-dims", "shifted-dims"):
        return f_arg, w_arg, dims      # the INDEX cube gets dimensions produced by a pipeline of index operations (see _pipeline)
    if kind == "loaded-dims":
        return f_arg, w_arg, dims      # the INDEX cube gets dimensions that went through IndxIO.save / load (read-only, file-backed row ids)
    raise KeyError(kind)


def _pipeline(kind, dense):
    """The index of `dense` (a 1-D array) as the END of a pipeline of library operations, as an application would have it."""
    from catii import iindexes
    from catii.iindexes import iindex

    n = len(dense)
    if kind == "appended-dims":
        k = n // 2
        a = iindex.from_array(dense[:k], common=0) if k else iindex({}, 0, (0,))
        a.append(iindex.from_array(dense[k:], common=1))
        return a
    if kind == "filtered-dims":
        big = numpy.zeros(2 * n + 1, dtype=numpy.int64)
        big[1::2][:n] = dense
        big[0::2] = 2
        mask = numpy.zeros(2 * n + 1, dtype=bool)
        mask[1::2][:n] = True
        return iindex.from_array(big).filtered(mask, int(mask.sum()))
    if kind == "sliced-dims":
        wide = numpy.column_stack([numpy.full(n, 1, dtype=numpy.int64), dense, (dense + 1) % 3])
        return iindex.from_array(wide).sliced(1)
    if kind == "reindexed-dims":
        swapped = numpy.where(dense == 0, 1, numpy.where(dense == 1, 0, dense))
        return iindex.from_array(swapped).reindexed({0: 1, 1: 0})
    if kind == "shifted-dims":
        ix = iindex.from_array(dense, common=2)
        ix.shift_common()
        ix.shift_common(1)
        return ix
    raise KeyError(kind)


_INDX_SEQ = 0


def _through_indx(ix):
    import os

    from catii.iindexes import iindex
    from catii.indxio import IndxIO

    from .. import indx as _indx

    # one file per index: the loaded row ids are views of the mapped file, a second save to the same path would rewrite them
    global _INDX_SEQ
    _INDX_SEQ += 1
    path = os.path.join(_indx.scratch_dir(), "c3-%d-%d.indx" % (os.getpid(), _INDX_SEQ))
    with open(path, "wb") as f:
        IndxIO.save(f, ix, ix.common, ix.rowid_dtype)
    with open(path, "rb") as f:
        ents, cm, dt = IndxIO.load(f)
    os.unlink(path)          # the mapping keeps the data alive
    return iindex(ents, cm, tuple(ix.shape))


def _relayout(ix, kind):
    ix = ix.copy()
    for k in list(dict.keys(ix)):
        a = dict.__getitem__(ix, k)
        if kind == "strided":
            big = numpy.zeros(2 * len(a) + 1, dtype=numpy.uint32)
            big[::2][:len(a)] = a
            dict.__setitem__(ix, k, big[::2][:len(a)])
        else:
            a = a.copy()
            a.flags.writeable = False
            dict.__setitem__(ix, k, a)
    return ix


def repr_calls(N):
    """A short menu (every aggregate, both policies, scalar / array / missing weights, 1- and 2-column facts in three forms)."""
    out = [("count", False, ("none",), None), ("count", True, ("scalar", 2.0), None)]
    if N:
        out.append(("count", False, ("array", tuple("PM"[r % 2] for r in range(N)), "nan"), None))
        out.append(("count", True, ("array", tuple("1" * N), "nan"), None))
    pat1 = tuple(r == 0 for r in range(N))
    pat2 = tuple((r + k) % 2 == 0 for r in range(N) for k in range(2))
    for agg in ("valid_count", "sum", "mean"):
        out.append((agg, False, ("none",), (0, "pow2", tuple([False] * N), "nan")))
        out.append((agg, True, ("scalar", 2.0), (0, "pow2", pat1, "nan")))
        out.append((agg, False, ("none",), (2, "pow2", tuple([False] * (2 * N)), "pair-huge")))
        out.append((agg, True, ("none",), (0, "pow2", pat1, "int")))
        if N:
            out.append((agg, True, ("array", tuple("P" * N), "nan"), (2, "pow2", pat2, "nan")))
            out.append((agg, False, ("array", tuple("1" * N), "nan"), (0, "pow2", tuple([False] * N), "nan")))
    return out


def check_repr(datas, E, N, acc, only_call=None, only_kind=None):
    from catii.ccubes import ccube
    from catii.xcubes import xcube

    D = len(datas)
    denses = [numpy.array(t, dtype=numpy.int64) for t in datas]
    shape = (E + 1,) * D
    cells = M.cell_rows(denses, shape, N)
    idx = [M.build_index(d, 0) for d in denses]
    for call in (repr_calls(N) if only_call is None else [only_call]):
        agg, ignore, ws, fs = call
        f0, x, valid, K, w0, w, wok = realise(N, ws, fs)
        grand = Q.grand_total(x, w, N, K)
        evals, emiss = Q.oracle(agg, cells, shape, N, K, x, valid, w, wok, ignore)
        for kind in (REPR_KINDS if only_kind is None else [only_kind]):
            f_arg, _, _, _, w_arg, _, _ = realise(N, ws, fs)
            rep = represent(kind, f_arg, w_arg, denses, ws)
            if rep is None:
                continue
            f2, w2, xdims = rep
            case = {"repr": kind, "data": [list(t) for t in datas], "E": E, "agg": agg, "ignore": ignore, "weights": ws, "fact": fs}
            cdims = idx
            if kind.endswith("-dims") and kind not in ("list-dims", "int32-dims", "loaded-dims"):
                cdims = [_pipeline(kind, d) for d in denses]
            elif kind == "loaded-dims":
                cdims = [_through_indx(ix) for ix in idx]
            elif kind in ("read-only", "strided"):
                cdims = [_relayout(ix, kind) for ix in idx]
            for cube_kind, mk in (("xcube", lambda: xcube(xdims, interacting_shape=shape)), ("ccube", lambda: ccube(cdims, interacting_shape=shape))):
                if cube_kind == "ccube" and kind in ("list-dims", "int32-dims"):
                    continue
                if cube_kind == "xcube" and kind.endswith("-dims") and kind not in ("list-dims", "int32-dims"):
                    continue
                try:
                    v, m = Q.normalise(Q.call_cube(mk(), agg, f2, w2, ignore, Q.PAIR), Q.PAIR)
                except Exception as e:  # noqa
                    acc.violation("%s:%s:raised" % (cube_kind, agg), dict(case, cube=cube_kind), repr(e))
                    continue
                acc.count("repr_evals")
                msg = Q.compare(v, m, evals, emiss, grand)
                if msg:
                    acc.violation("%s:%s:differs" % (cube_kind, agg), dict(case, cube=cube_kind), msg)
            acc.case(("repr", kind, tuple(datas), agg, ignore, ws, fs), nontrivial=True, outcome=("repr", kind, agg), sample=lambda: case)


# ----------------------------------------------------------------------------- scale: hundreds to tens of thousands of rows
SCALE_NS = {"quick": [300, 1000, 4097, 20001], "thorough": [300, 1000, 4097, 20001, 70001, 150000]}


def scale_data(N, design):
    r = numpy.arange(N, dtype=numpy.int64)
    if design == 0:
        return [((r * 7 + r // 3) % 3), ((r * 5 + r // 7) % 3)]
    if design == 1:   # one skewed dimension (a rare category every 97th row, another one never), one balanced
        d0 = numpy.zeros(N, dtype=numpy.int64)
        d0[::97] = 1
        return [d0, (r // 11) % 3]
    # one dimension with two columns
    return [numpy.stack([(r * 3 + r // 5) % 3, (r // 2) % 3], axis=1), (r * 5 + r // 7) % 3]


def scale_calls(N):
    none = tuple([False] * N)
    m31 = tuple(r % 31 == 5 for r in range(N))
    m31x2 = tuple(((r % 31 == 5) and k == 0) or ((r % 17 == 3) and k == 1) for r in range(N) for k in range(2))
    wP = ("array", tuple("P" * N), "nan")
    wPM = ("array", tuple("M" if r % 50 == 7 else "P" for r in range(N)), "nan")
    out = [("count", False, ("none",), None), ("count", True, wPM, None), ("count", False, wP, None)]
    for agg in ("valid_count", "sum", "mean"):
        out.append((agg, False, ("none",), (0, "mixed", none, "nan")))
        out.append((agg, True, wP, (0, "mixed", m31, "nan")))
        out.append((agg, True, wPM, (2, "mixed", m31x2, "pair-huge")))
    return out


def check_scale(N, design, acc, only_call=None, only_commons=None):
    from catii.ccubes import ccube
    from catii.iindexes import iindex
    from catii.xcubes import xcube

    denses = scale_data(N, design)
    shape = (3,) * len(denses)
    # cells of the brute-force group-by; a dimension with columns contributes its extra axis in front (C13's layout)
    two_col = denses[0].ndim == 2
    for call in (scale_calls(N) if only_call is None else [only_call]):
        agg, ignore, ws, fs = call
        f_arg, x, valid, K, w_arg, w, wok = realise(N, ws, fs)
        grand = Q.grand_total(x, w, N, K)
        blocks_ = []
        for col in (range(denses[0].shape[1]) if two_col else [None]):
            flat = [denses[0][:, col] if two_col else denses[0]] + denses[1:]
            cells = M.cell_rows(flat, shape, N)
            blocks_.append(Q.oracle(agg, cells, shape, N, K, x, valid, w, wok, ignore))
        evals = numpy.stack([b[0] for b in blocks_]) if two_col else blocks_[0][0]
        emiss = numpy.stack([b[1] for b in blocks_]) if two_col else blocks_[0][1]
        case = {"scale": [N, design], "agg": agg, "ignore": ignore, "weights": "P/M pattern" if ws[0] == "array" else ws, "fact": None if fs is None else [fs[0], fs[1], "pattern", fs[3]],
                "call_index": scale_calls(N).index(call)}
        for commons in ([(0, 0), (1, 2)] if only_commons is None else [tuple(only_commons)]):
            for kind in ("xcube", "ccube"):
                if kind == "xcube" and commons != (0, 0) and only_commons is None:
                    continue
                try:
                    f2, _, _, _, w2, _, _ = realise(N, ws, fs)
                    if kind == "xcube":
                        cube = xcube(denses, interacting_shape=shape)
                    else:
                        cube = ccube([iindex.from_array(d, common=c) for d, c in zip(denses, commons)], interacting_shape=shape)
                    v, m = Q.normalise(Q.call_cube(cube, agg, f2, w2, ignore, Q.PAIR), Q.PAIR)
                except Exception as e:  # noqa
                    acc.violation("%s:%s:raised" % (kind, agg), dict(case, cube=kind, commons=list(commons)), repr(e))
                    continue
                acc.count("scale_evals")
                msg = Q.compare(v, m, evals, emiss, grand)
                if msg:
                    acc.violation("%s:%s:differs" % (kind, agg), dict(case, cube=kind, commons=list(commons)), msg[:1500])
        acc.case(("scale", N, design, agg, ignore, case["call_index"]), nontrivial=True, outcome=("scale", agg, N >= 4097), sample=lambda: case)


def check_zero(N, cfg, acc, only_call=None):
    from catii.ccubes import ccube
    from catii.xcubes import xcube

    cells = {(): list(range(N))}
    for call in (calls(N, cfg) if only_call is None else [only_call]):
        agg, ignore, ws, fs = call
        f_arg, x, valid, K, w_arg, w, wok = realise(N, ws, fs)
        grand = Q.grand_total(x, w, N, K)
        evals, emiss = Q.oracle(agg, cells, (), N, K, x, valid, w, wok, ignore)
        case = {"data": [], "N": N, "agg": agg, "ignore": ignore, "weights": ws, "fact": fs}
        for kind, mk in (("ccube", lambda: ccube([])), ("xcube", lambda: xcube([]))):
            try:
                f2, _, _, _, w2, _, _ = realise(N, ws, fs)
                res = Q.call_cube(mk(), agg, f2, w2, ignore, Q.PAIR, N=N if agg == "count" else None)
                v, m = Q.normalise(res, Q.PAIR)
            except Exception as e:  # noqa
                acc.violation("%s0:%s:raised" % (kind, agg), case, repr(e))
                continue
            msg = Q.compare(v, m, evals, emiss, grand, zero_dim=True)
            if msg:
                acc.violation("%s0:%s:differs" % (kind, agg), case, msg)
            acc.count(kind + "_evals")
        acc.case(("zero", N, agg, ignore, ws, fs), nontrivial=False, outcome=("zero", agg), sample=case)


def check_wide(shape, vals, datas, acc):
    """Sparse comparison on a wide cube: every populated cell against the group-by, every other cell missing."""
    from catii.ccubes import ccube
    from catii.xcubes import xcube

    D = len(shape)
    N = len(datas[0])
    denses = [numpy.array(t, dtype=numpy.int64) for t in datas]
    cells = M.cell_rows(denses, shape, N)
    xin = [Q.unsigned_view(d) for d in denses]
    total = 1
    for e in shape:
        total *= e
    wsyms = tuple("PM"[r % 2] for r in range(N))
    menu = [("count", False, ("none",), None), ("count", True, ("array", wsyms, "nan"), None), ("sum", True, ("scalar", 2.0), (0, "pow2", tuple([False] * N), "nan")),
            ("mean", False, ("none",), (0, "pow2", tuple(r == 0 for r in range(N)), "pair-huge"))]
    for call in menu:
        agg, ignore, ws, fs = call
        f_arg, x, valid, K, w_arg, w, wok = realise(N, ws, fs)
        exp = {}
        for coords, rows in cells.items():
            ev, em = Q.oracle(agg, {(): rows}, (), N, K, x, valid, w, wok, ignore)
            exp[coords] = (float(ev), bool(em))
        nvalid = sum(1 for v, m in exp.values() if not m)
        base = {"wide": list(shape), "data": [list(t) for t in datas], "agg": agg, "ignore": ignore, "weights": ws, "fact": fs}
        variants = [
            ("ccube", "explicit", lambda: ccube([M.build_index(d, int(t[0])) for d, t in zip(denses, datas)], interacting_shape=shape)),
            ("ccube", "common-absent", lambda: ccube([M.build_index(d, 1) for d in denses], interacting_shape=shape)),
            ("xcube", "int64-explicit", lambda: xcube(denses, interacting_shape=shape)),
            ("xcube", "unsigned-explicit", lambda: xcube(xin, interacting_shape=shape)),
        ]
        for sdt in (numpy.int8, numpy.int16, numpy.int32, numpy.uint16, numpy.uint32):
            if all((int(d.max()) if d.size else 0) <= numpy.iinfo(sdt).max for d in denses):
                variants.append(("xcube", numpy.dtype(sdt).name + "-explicit", (lambda t: (lambda: xcube([d.astype(t) for d in denses], interacting_shape=shape)))(sdt)))
        # inferred shape: the array cube over the narrowest unsigned dtype must find max + 1 categories per dimension (a maximum equal to the
        # dtype's largest value included)
        ishape = tuple(int(d.max()) + 1 for d in denses)
        variants.append(("xcube", "unsigned-inferred", lambda: xcube(xin)))
        variants.append(("xcube", "int64-inferred", lambda: xcube(denses)))
        for kind, variant, mk in variants:
            want_shape = ishape if variant.endswith("-inferred") else tuple(shape)
            try:
                f2, _, _, _, w2, _, _ = realise(N, ws, fs)
                v, m = Q.normalise(Q.call_cube(mk(), agg, f2, w2, ignore, Q.PAIR), Q.PAIR)
            except Exception as e:  # noqa
                acc.violation("%s:%s:raised" % (kind, agg), dict(base, variant=variant), repr(e))
                continue
            acc.count(kind + "_evals")
            if tuple(v.shape) != want_shape:
                acc.violation("%s:%s:differs" % (kind, agg), dict(base, variant=variant), "shape %r expected %r" % (v.shape, want_shape))
                continue
            bad = None
            if int((~m).sum()) != nvalid:
                where = [tuple(int(i) for i in c) for c in numpy.argwhere(~m)[:6]]
                bad = "%d non-missing cells, expected %d (non-missing at %r, expected at %r)" % (int((~m).sum()), nvalid, where, sorted(c for c, (vv, mm) in exp.items() if not mm))
            else:
                for coords, (ev, em) in exp.items():
                    if bool(m[coords]) != em or (not em and abs(float(v[coords]) - ev) > 1e-9 * max(1.0, abs(ev))):
                        bad = "cell %r: value %r missing %r, expected %r missing %r" % (coords, float(v[coords]), bool(m[coords]), ev, em)
                        break
            if bad:
                acc.violation("%s:%s:differs" % (kind, agg), dict(base, variant=variant), bad)
        acc.case(("wide", shape, tuple(datas), call), nontrivial=len(cells) > 1, outcome=("wide", agg), sample=lambda: base)


def run_block(family, p, acc):
    if family == "wide":
        shape, vals = WIDE[p["wi"]]
        for N in (1, 2, 3):
            for datas in itertools.product(*[list(itertools.product(v, repeat=N)) for v in vals]):
                if N == 3 and (len(shape) > 1 or p["tier"] == "quick") and len(set(datas[0])) < 2:
                    continue
                check_wide(tuple(shape), vals, list(datas), acc)
        return
    if family == "scale":
        check_scale(p["N"], p["design"], acc)
        return
    if family == "repr":
        D, N, E = p["D"], p["N"], 2
        vecs = list(itertools.product(range(E), repeat=N))
        for datas in itertools.islice(itertools.product(vecs, repeat=D), p["a"], p["a"] + 8):
            check_repr(list(datas), E, N, acc)
        return
    cfg = SETS[p["tier"]][p["si"]]
    N = p["N"]
    if family == "zero":
        check_zero(N, cfg, acc)
        return
    D, E = cfg["D"], cfg["E"]
    vecs = list(itertools.product(range(E), repeat=N))
    alld = itertools.islice(itertools.product(vecs, repeat=D), p["a0"], p["a1"])
    for datas in alld:
        check_data(list(datas), E, N, cfg, acc)


def _tupleize(x):
    if isinstance(x, list):
        return tuple(_tupleize(v) for v in x)
    if x == "NaN":
        return float("nan")
    return x


def replay(case, site=None):
    from ..core import Acc

    acc = Acc(ID, [], stop_at_first=False)
    if case.get("scale"):
        N, design = case["scale"]
        check_scale(N, design, acc, only_call=scale_calls(N)[case["call_index"]], only_commons=case.get("commons"))
        for v in acc.violations:
            print("  %s :: %s" % (v["site"], v["detail"][:700]))
        return bool(acc.violations)
    call = (case["agg"], case["ignore"], _tupleize(case["weights"]), _tupleize(case["fact"]) if case["fact"] is not None else None)
    cfg = dict(wl=0, Ks=[0], fl=1, forms=["nan"], vals=["pow2"], wforms=True)
    if case.get("repr"):
        datas = [tuple(t) for t in case["data"]]
        check_repr(datas, case["E"], len(datas[0]), acc, only_call=call, only_kind=case["repr"])
    elif case.get("wide"):
        check_wide(tuple(case["wide"]), None, [tuple(t) for t in case["data"]], acc)
    elif not case["data"]:
        check_zero(case["N"], cfg, acc, only_call=call)
    else:
        datas = [tuple(t) for t in case["data"]]
        check_data(datas, case["E"], len(datas[0]), cfg, acc, only_call=call, only_commons=None if str(case.get("variant", "")).startswith("same cube") else case.get("commons"))
    for v in acc.violations:
        print("  %s %s :: %s" % (v["site"], {k: v["case"].get(k) for k in ("variant", "commons")}, v["detail"][:700]))
    return bool(acc.violations)
