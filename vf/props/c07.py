"""C07: every operation preserves index well-formedness (hist engine)."""
from .. import hist, histprop
from . import c06

ID = "C07"
LEVEL = "model_checking"


def describe(tier):
    d = c06.describe(tier)
    d["rule"] = ("same state graph as C06 (%s) -- invariant on EVERY resulting state: validate(True) does not raise; every row-id array is uint32, strictly increasing, "
                 "below the row count; len(coords) == ndim; higher coordinates inside the shape; nothing listed under the common value; no empty entry; abscissae, sparsity "
                 "and the inferred cube shape equal what the dense model gives. The same invariants on the results of the entry-wise updates with row ids in seven representations and of every operation on wide / tall indexes (see C06)." % d["rule"][:200])
    return d


class _Ctx:
    def __init__(self):
        self.viol = []

    def v(self, prop, site, opd, detail):
        import numpy

        self.viol.append({"property": prop, "site": site, "op": opd, "detail": detail, "state": hist.key_from_dense(numpy.zeros((0,), dtype=numpy.int64), 0), "depth": 0})


def construction_family(res, tier, part=None):
    """`construction from arrays` on BOTH strategies of from_array: every small array x embedding x common (omitted / present / absent) x counts x mapping,
    and the sparse 79..120-cell arrays that take the row-scan strategy (k rare cells among 6 slots incl. first/last rows, repeated rare values): the result
    must satisfy every C07 invariant against the (mapped) array."""
    import numpy

    from catii.iindexes import iindex

    from .. import models as M
    from . import c01

    ctx = _Ctx()
    n = 0

    def one(ea, common, counts, mapping, opd):
        nonlocal n
        n += 1
        try:
            kw = {}
            if common is not None:
                kw["common"] = common
            idx = iindex.from_array(ea, counts=dict(counts) if counts is not None else None, mapping=dict(mapping) if mapping else None, **kw)
        except Exception:
            return  # construction failures are C01's business
        dense = ea if not mapping else numpy.vectorize(mapping.get, otypes=[numpy.int64])(ea)
        hist.wellformed(idx, dense, opd, ctx, "from_array")

    def countsof(ea):
        c = {}
        for v in ea.flat:
            c[int(v)] = c.get(int(v), 0) + 1
        return c

    shapes = [(k,) for k in range(1, 5)] + [(2, 2), (3, 2), (2, 3)]
    embs = [(0, 1, 2, 3), (5, -1, 300, 7)]
    for sh in (shapes if part in (None, "small") else []):
        for a in M.all_arrays(sh, range(3)):
            for emb in embs:
                ea = numpy.array(emb[:3], dtype=numpy.int64)[a]
                for mk in c01.MAPPINGS:
                    mapping = c01.make_mapping(mk, emb)
                    for common in (None, emb[0], emb[1], emb[3]):
                        cm = common if (common is None or not mapping) else mapping.get(common, common)
                        for uc in (False, True):
                            one(ea, cm, countsof(ea) if uc else None, mapping, {"op": "from_array", "array": ea.tolist(), "mapping": mk, "common": cm, "counts": uc})
    cfgs = c01.rowscan_configs(tier) if part in (None, "rowscan-even", "rowscan-odd") else []
    if part == "rowscan-even":
        cfgs = cfgs[0::2]
    elif part == "rowscan-odd":
        cfgs = cfgs[1::2]
    for cfg in cfgs:
        emb = c01.ROWSCAN_EMBS[cfg["ei"]]
        if emb[5] >= 2 ** 32:
            emb = emb[:5] + (1 << 20,) + emb[6:]
        for a, cells, vals in c01.rowscan_arrays(tuple(cfg["shape"]), cfg["k"], emb, cfg["dup"]):
            many = {v: v for v in emb}
            many[emb[2]] = emb[1]
            onto = {v: v for v in emb}
            onto[emb[1]] = emb[0]       # a rare value mapped onto the dominant one: two inputs share the common output
            for mk, mapping in (("none", None), ("many", many), ("onto-common", onto)):
                for common in (None, emb[0], emb[6]):
                    for uc in (False, True):
                        one(a, common, countsof(a) if uc else None, mapping,
                            {"op": "from_array", "rowscan": True, "shape": cfg["shape"], "cells": list(cells), "values": [int(v) for v in vals], "dominant": emb[0], "mapping": mk, "common": common, "counts": uc})
    return ctx.viol, {"construction_cases" + ("" if part is None else ":" + part): n}


def _cf_small(res, tier):
    return construction_family(res, tier, "small")


def _cf_even(res, tier):
    return construction_family(res, tier, "rowscan-even")


def _cf_odd(res, tier):
    return construction_family(res, tier, "rowscan-odd")


def extras(res, tier):
    from .. import bigops

    return [_cf_small, _cf_even, _cf_odd] + bigops.parts("C07")


def main(tier, all_violations=False, t0=None):
    return histprop.run(__import__("vf.props.c07", fromlist=["x"]), tier, all_violations, t0, extra=extras)


def replay(case, site=None):
    if case["op"].get("op") == "from_array":
        viol, _ = construction_family(None, case.get("tier", "quick"))
        viol = [v for v in viol if v["op"] == case["op"]]
        for v in viol:
            print("  %s :: %s" % (v["site"], v["detail"][:400]))
        return bool(viol)
    return histprop.replay(case)
