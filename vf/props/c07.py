"""C07: every operation preserves index well-formedness (hist engine)."""
from .. import hist, histprop
from . import c06

ID = "C07"
LEVEL = "model_checking"


def describe(tier):
    d = c06.describe(tier)
    d["rule"] = ("same state graph as C06 (%s) -- invariant on EVERY resulting state: validate(True) does not raise; every row-id array is uint32, strictly increasing, "
                 "below the row count; len(coords) == ndim; higher coordinates inside the shape; nothing listed under the common value; no empty entry; abscissae, sparsity "
                 "and the inferred cube shape equal what the dense model gives." % d["rule"][:200])
    return d


def main(tier, all_violations=False, t0=None):
    return histprop.run(__import__("vf.props.c07", fromlist=["x"]), tier, all_violations, t0)


def replay(case, site=None):
    return histprop.replay(case)
