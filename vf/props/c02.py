"""C02: the unweighted count cube equals the brute-force contingency table."""
import itertools

import numpy

from .. import models as M

ID = "C02"
LEVEL = "exploration"

# (N, [extra extents per dim], E)   E = number of real categories; value E is the absent category
QUICK = [
    # one dimension, every shape
    *[(n, [[]], 2) for n in range(0, 4)],
    *[(n, [[2]], 2) for n in range(0, 4)],
    *[(n, [[2, 2]], 2) for n in range(0, 3)],
    (2, [[3]], 2), (1, [[1]], 2),
    # two dimensions
    *[(n, [[], []], 2) for n in range(0, 4)],
    (2, [[2], []], 2), (2, [[], [2]], 2), (2, [[2], [2]], 2), (1, [[2, 2], []], 2), (1, [[], [2, 2]], 2),
    (3, [[], []], 3),
    # three dimensions (middle-dimension branch of the walk)
    *[(n, [[], [], []], 2) for n in range(0, 4)],
    (2, [[2], [], []], 2), (2, [[], [2], []], 2), (2, [[], [], [2]], 2),
    # four dimensions
    *[(n, [[], [], [], []], 2) for n in range(0, 3)],
]
THOROUGH = QUICK + [
    (4, [[]], 3), (4, [[], []], 2), (3, [[2], []], 2), (3, [[], [2]], 2), (2, [[2, 2], []], 2), (2, [[2], [2]], 3),
    (3, [[], [], []], 3), (4, [[], [], []], 2), (3, [[2], [], []], 2), (3, [[], [2], []], 2), (3, [[], [], [2]], 2),
    (3, [[], [], [], []], 2), (2, [[], [], [], []], 3), (2, [[2], [], [], []], 2), (2, [[], [], [], [2]], 2),
    (1, [[2, 2], [2]], 2), (1, [[2], [2, 2]], 2), (3, [[3]], 2), (2, [[1, 4]], 2),
]
BOUNDARY = [256, 257, 65536, 65537]
WIDE_COLS = {"quick": [300, 1023, 1024, 1025, 1500], "thorough": [300, 1023, 1024, 1025, 1500, 2048, 2049, 5000]}   # columns of one two-axis dimension
LONG_N = 20
LONG_RUNS = [9, 10, 12, 16, 17, 18, 19]   # one entry this many times longer than the one it meets (galloping / bisecting merges switch strategy on the ratio)


def describe(tier):
    cfg = QUICK if tier == "quick" else THOROUGH
    return {
        "rule": "for every configuration (rows N, per-dimension extra-axis extents, E real categories) in the list: EVERY data array over "
        "{0..E-1}, EVERY common value in 0..E per dimension (E = absent from the data), explicit shape (E+1 per dim) and inferred shape; count() "
        "read through the NaN format and the (0, False) format. Plus boundary extents %r on one dimension (alone and crossed with a small one) "
        "and the zero-dimension cube with N=0..3; plus a %d-row family where one dimension holds a run of L in %r rows (every start) and the other one or two rows "
        "(every single row, every pair of run-edge rows), both orders and a third alternating dimension (a quarter of them also with every stored row-id array as a non-contiguous view); a two-axis dimension of %r columns crossed with a flat one; hand-built indexes of 2^24+1 .. 2^32 rows (1-3 dimensions, a handful of listed rows incl. the last). Oracle: loop over rows incrementing a table; missing iff zero. Non-trivial: >=2 dimensions or "
        "an extra axis, and at least one dimension whose common cell is reconstructed non-empty while another value is present. "
        "Distinct = distinct (config, data, commons)." % (BOUNDARY, LONG_N, LONG_RUNS, WIDE_COLS[tier]),
        "bounds": {"configs": [(n, [list(e) for e in ex], E) for n, ex, E in cfg]},
        "exhaustive": True,
        "assumptions": ["indexes are built by the harness builder (models.build_index), not by from_array"],
    }


def dim_options(N, extra, E):
    """All (dense, common) for one dimension."""
    shape = (N,) + tuple(extra)
    out = []
    for a in M.all_arrays(shape, range(E)):
        for c in range(E + 1):
            out.append((a, c))
    return out


def blocks(tier):
    cfg = QUICK if tier == "quick" else THOROUGH
    out = [("zero", {})]
    for i, (N, extras, E) in enumerate(cfg):
        n0 = len(dim_options(N, extras[0], E))
        rest = 1
        for ex in extras[1:]:
            rest *= len(dim_options(N, ex, E))
        # aim at ~600 cubes per block
        step = max(1, 600 // max(1, rest))
        for a in range(0, n0, step):
            out.append(("cfg", {"N": N, "extras": extras, "E": E, "a0": a, "a1": min(n0, a + step)}))
    for L in LONG_RUNS:
        out.append(("long", {"L": L}))
    for C in WIDE_COLS[tier]:
        out.append(("widecols", {"C": C}))
    out.append(("hugeN", {}))
    for X in BOUNDARY:
        for N in (1, 2, 3):
            for i in range(3 ** N):
                out.append(("boundary", {"X": X, "N": N, "i": i}))
    return out


def compare(res_nan, res_pair, table, acc, case, site):
    exp_shape = table.shape
    miss = table == 0
    r = numpy.asarray(res_nan)
    if r.shape != exp_shape:
        acc.violation(site + ":shape", case, "NaN-format result shape %r, expected %r" % (r.shape, exp_shape))
        return
    rm = numpy.isnan(r.astype(float))
    if not numpy.array_equal(rm, miss):
        acc.violation(site + ":missing-set", case, "NaN format: missing %r, expected %r; table=%r result=%r" % (rm.tolist(), miss.tolist(), table.tolist(), r.tolist()))
        return
    if not numpy.array_equal(r[~miss], table[~miss]):
        acc.violation(site + ":values", case, "NaN format: %r, expected %r" % (r.tolist(), table.tolist()))
        return
    if not (isinstance(res_pair, tuple) and len(res_pair) == 2):
        acc.violation(site + ":pair-format", case, "pair format returned %r" % (type(res_pair),))
        return
    v, ok = numpy.asarray(res_pair[0]), numpy.asarray(res_pair[1])
    if v.shape != exp_shape or ok.shape != exp_shape:
        acc.violation(site + ":shape", case, "pair-format shapes %r %r, expected %r" % (v.shape, ok.shape, exp_shape))
        return
    if not numpy.array_equal(~ok.astype(bool), miss):
        acc.violation(site + ":missing-set", case, "pair format: validity %r, table %r" % (ok.tolist(), table.tolist()))
        return
    if not numpy.array_equal(v[~miss], table[~miss]):
        acc.violation(site + ":values", case, "pair format: %r, expected %r" % (v.tolist(), table.tolist()))


_POOLED_NTH = 0


def check_cube(denses, commons, E_shape, acc, case, layout=None):
    from catii.ccubes import ccube

    N = int(denses[0].shape[0])
    for mode in ("explicit", "inferred"):
        dims = [M.build_index(d, c) for d, c in zip(denses, commons)]
        if layout == "strided-entries":
            for d in dims:
                for k in list(dict.keys(d)):
                    a = dict.__getitem__(d, k)
                    big = numpy.zeros(2 * len(a) + 1, dtype=numpy.uint32)
                    big[::2][:len(a)] = a
                    dict.__setitem__(d, k, big[::2][:len(a)])
        try:
            cube = ccube(dims, interacting_shape=tuple(E_shape) if mode == "explicit" else None)
            shape = tuple(int(s) for s in cube.interacting_shape)
            if mode == "inferred":
                # the common value is one of the dimension's categories even when no row holds it
                need = [max(int(d.max()) if d.size else 0, int(c)) + 1 for d, c in zip(denses, commons)]
                if any(s < n for s, n in zip(shape, need)):
                    acc.violation("count:inferred-shape", dict(case, mode=mode), "inferred %r does not cover the data and common values, which need %r" % (shape, need))
                    continue
            r1 = cube.count()
            r2 = ccube(dims, interacting_shape=shape).count(return_missing_as=(0, False))
        except Exception as e:  # noqa
            acc.violation("count:raised", dict(case, mode=mode), repr(e))
            continue
        table = M.count_table(denses, shape, N)
        compare(r1, r2, table, acc, dict(case, mode=mode), "count")
        global _POOLED_NTH
        if mode == "explicit" and layout is None and any(d.ndim >= 2 for d in denses):
            _POOLED_NTH += 1
        if mode == "explicit" and layout is None and any(d.ndim >= 2 for d in denses) and (_POOLED_NTH % 6 == 0 or case.get("pooled")):
            # the same count with the cube's worker pool switched on (real threads; default pool size, and more workers than blocks), every sixth cube
            for ps in ((None, 7) if _POOLED_NTH % 12 == 0 or case.get("pooled") else (None,)):
                try:
                    pc, pc2 = ccube(dims, interacting_shape=shape), ccube(dims, interacting_shape=shape)
                    pc.parallel = pc2.parallel = True
                    if ps is not None:
                        pc.poolsize = pc2.poolsize = ps
                    compare(pc.count(), pc2.count(return_missing_as=(0, False)), table, acc, dict(case, mode=mode, pooled=ps or "default"), "count-pooled")
                except Exception as e:  # noqa
                    acc.violation("count-pooled:raised", dict(case, mode=mode, pooled=ps or "default"), repr(e))
        if mode == "explicit" and layout is None and all(int(d.max()) + 1 < s for d, s in zip(denses, shape) if d.size):
            # the SAME cube object asked again after each in-place change of its first dimension, and a new cube over the changed dimension
            from .. import cubes as Q

            for label, apply, nd in Q.in_place_changes(dims, [numpy.asarray(d) for d in denses]):
                try:
                    apply()
                    t2 = M.count_table(nd, shape, N)
                    compare(cube.count(), cube.count(return_missing_as=(0, False)), t2, acc, dict(case, mode=mode, after=label, cube="built before the change"), "count-after-change")
                    fresh = ccube(dims, interacting_shape=shape)
                    compare(fresh.count(), fresh.count(return_missing_as=(0, False)), t2, acc, dict(case, mode=mode, after=label, cube="built after the change"), "count-after-change")
                except Exception as e:  # noqa
                    acc.violation("count-after-change:raised", dict(case, mode=mode, after=label), repr(e))
                    break
                denses_now = nd


# Row counts beyond single precision and beyond 2^31 / 2^32 (an index only stores its uncommon rows, so they cost nothing): the count of the
# common cells, obtained by differencing, must be exact
HUGE_N = [2 ** 24 + 1, 2 ** 24 + 3, 2 ** 25 + 1, 2 ** 31 + 7, 2 ** 32 - 1, 2 ** 32]


def check_huge(acc, only=None):
    from catii.ccubes import ccube
    from catii.iindexes import iindex

    for N in HUGE_N:
        top = N - 1
        layouts = [
            ([{1: [0, 5, top]}], "one dimension"),
            ([{1: [0, 5, top], 2: [7]}, {1: [5, 6], 2: [top]}], "two dimensions"),
            ([{1: [0], 2: [1, top - 1]}, {2: [1]}, {1: [0, top - 1], 2: [3]}], "three dimensions"),
        ]
        for ents, label in layouts:
            case = {"hugeN": str(N), "layout": label}
            if only is not None and only != case:
                continue
            D = len(ents)
            shape = (3,) * D
            table = numpy.zeros(shape, dtype=object)
            listed = sorted(set(r for e in ents for rows in e.values() for r in rows))
            for r in listed:
                coord = tuple(next((v for v, rows in e.items() if r in rows), 0) for e in ents)
                table[coord] += 1
            table[(0,) * D] += N - len(listed)
            try:
                dims = [iindex({(v,): numpy.array(rows, dtype=numpy.uint32) for v, rows in e.items()}, 0, (N,)) for e in ents]
                r1 = ccube(dims, interacting_shape=shape).count()
                r2 = ccube(dims, interacting_shape=shape).count(return_missing_as=(0, False))
            except Exception as e:  # noqa
                acc.violation("count-huge:raised", case, repr(e))
                continue
            want = numpy.array(table.tolist(), dtype=numpy.float64)
            miss = want == 0
            g1 = numpy.asarray(r1, dtype=numpy.float64)
            g2 = numpy.asarray(r2[0], dtype=numpy.float64)
            if not numpy.array_equal(numpy.isnan(g1), miss) or not numpy.array_equal(g1[~miss], want[~miss]):
                acc.violation("count-huge:values", case, "NaN format: %r, expected %r" % (g1.tolist(), table.tolist()))
            elif not numpy.array_equal(~numpy.asarray(r2[1]).astype(bool), miss) or not numpy.array_equal(g2[~miss], want[~miss]):
                acc.violation("count-huge:values", case, "pair format: %r, expected %r" % (g2.tolist(), table.tolist()))
            acc.case(("huge", N, label), nontrivial=D >= 2, outcome=("huge", N >= 2 ** 31), sample=case)


def nontrivial(denses, commons):
    if len(denses) < 2 and denses[0].ndim < 2:
        return False
    for d, c in zip(denses, commons):
        vals = set(d.flat)
        if c in vals and len(vals) > 1:
            return True
    return False


def run_block(family, p, acc):
    from catii.ccubes import ccube

    if family == "zero":
        for N in range(0, 4):
            case = {"dims": 0, "N": N}
            try:
                r1 = ccube([]).count(N=N)
                r2 = ccube([]).count(N=N, return_missing_as=(0, False))
                table = numpy.array(N, dtype=numpy.int64)
                compare(r1, r2, table, acc, case, "count0")
            except Exception as e:  # noqa
                acc.violation("count0:raised", case, repr(e))
            acc.case(("zero", N), nontrivial=False, outcome=("zero", N), sample=case)
        return
    if family == "hugeN":
        check_huge(acc)
        return
    if family == "widecols":
        # one dimension with C columns (C sub-cubes) crossed with a flat one: block-wise processing of the sub-cube axis
        C, N = p["C"], 3
        r = numpy.arange(N)[:, None]
        c = numpy.arange(C)[None, :]
        d0 = ((r * 2 + c + c // 7) % 3).astype(numpy.int64)
        d1 = numpy.array([0, 1, 1], dtype=numpy.int64)
        for commons in ((0, 0), (1, 2), (2, 1)):
            for order in ("wide-first", "wide-last"):
                denses = [d0, d1] if order == "wide-first" else [d1, d0]
                cs = list(commons) if order == "wide-first" else list(commons[::-1])
                case = {"widecols": C, "commons": cs, "order": order}
                check_cube(denses, cs, (3, 3), acc, case)
                acc.case(("widecols", C, tuple(cs), order), nontrivial=True, outcome=("widecols", C > 1024), sample=case)
        return
    if family == "long":
        N, L = LONG_N, p["L"]
        third = numpy.arange(N, dtype=numpy.int64) % 2
        for s0 in range(0, N - L + 1):
            run = numpy.zeros(N, dtype=numpy.int64)
            run[s0:s0 + L] = 1
            edge = sorted({0, max(0, s0 - 1), s0, s0 + L - 1, min(N - 1, s0 + L), N - 1})
            probes = [(r,) for r in range(N)] + list(itertools.combinations(edge, 2))
            for pr in probes:
                b = numpy.zeros(N, dtype=numpy.int64)
                b[list(pr)] = 1
                for c1, c2 in ((0, 0), (1, 0), (2, 0)):
                    case = {"long": True, "run": [s0, L], "probe": list(pr), "commons": [c1, c2]}
                    check_cube([run, b], [c1, c2], (3, 3), acc, dict(case, order="run,probe"))
                    if (s0 + len(pr)) % 4 == 0:
                        check_cube([run, b], [c1, c2], (3, 3), acc, dict(case, order="run,probe", layout="strided-entries"), layout="strided-entries")
                    check_cube([b, run], [c2, c1], (3, 3), acc, dict(case, order="probe,run"))
                    acc.case(("long", s0, L, pr, c1), nontrivial=True, outcome=("long", bool(run[list(pr)].any())), sample=case)
                case = {"long": True, "run": [s0, L], "probe": list(pr), "commons": [0, 0, 0], "order": "3d"}
                check_cube([run, b, third], [0, 0, 0], (3, 3, 3), acc, case)
        return
    if family == "boundary":
        X = p["X"]
        vals = [0, X - 2, X - 1]
        for N in (p["N"],):
            for t in list(itertools.product(vals, repeat=N))[p["i"]:p["i"] + 1]:
                a = numpy.array(t, dtype=numpy.int64)
                for c in vals + [1]:
                    case = {"X": X, "data": list(t), "common": c}
                    check_cube([a], [c], (X,), acc, case)
                    acc.case(("b1", X, t, c), nontrivial=len(set(t)) > 1, outcome=("b", X), sample=case)
                    if N <= 2:
                        for t2 in itertools.product([0, 1], repeat=N):
                            b = numpy.array(t2, dtype=numpy.int64)
                            for c2 in (0, 1, 2):
                                case2 = {"X": X, "data": list(t), "common": c, "data2": list(t2), "common2": c2}
                                check_cube([a, b], [c, c2], (X, 3), acc, dict(case2, order="Xy"))
                                check_cube([b, a], [c2, c], (3, X), acc, dict(case2, order="yX"))
                                acc.case(("b2", X, t, c, t2, c2), nontrivial=True, outcome=("b2", X), sample=case2)
        return
    N, extras, E = p["N"], p["extras"], p["E"]
    opts = [dim_options(N, ex, E) for ex in extras]
    first = opts[0][p["a0"]:p["a1"]]
    shape = (E + 1,) * len(extras)
    for combo in itertools.product(first, *opts[1:]):
        denses = [d for d, c in combo]
        commons = [c for d, c in combo]
        case = {"N": N, "extras": extras, "E": E, "data": [d.tolist() for d in denses], "commons": commons}
        check_cube(denses, commons, shape, acc, case)
        key = (N, tuple(map(tuple, extras)), E, tuple(d.tobytes() for d in denses), tuple(commons))
        acc.case(key, nontrivial=nontrivial(denses, commons), outcome=(len(denses), tuple(sorted(set(int(x) for d in denses for x in d.flat)))), sample=case)


def replay(case, site=None):
    from ..core import Acc
    from catii.ccubes import ccube

    acc = Acc(ID, [], stop_at_first=False)
    if case.get("hugeN"):
        check_huge(acc, only={"hugeN": case["hugeN"], "layout": case["layout"]})
    elif case.get("widecols"):
        C, N = case["widecols"], 3
        r = numpy.arange(N)[:, None]
        c = numpy.arange(C)[None, :]
        d0 = ((r * 2 + c + c // 7) % 3).astype(numpy.int64)
        d1 = numpy.array([0, 1, 1], dtype=numpy.int64)
        check_cube([d0, d1] if case["order"] == "wide-first" else [d1, d0], case["commons"], (3, 3), acc, case)
    elif case.get("long"):
        N = LONG_N
        run = numpy.zeros(N, dtype=numpy.int64)
        run[case["run"][0]:case["run"][0] + case["run"][1]] = 1
        b = numpy.zeros(N, dtype=numpy.int64)
        b[case["probe"]] = 1
        c = case["commons"]
        if case.get("order") == "3d":
            check_cube([run, b, numpy.arange(N, dtype=numpy.int64) % 2], c, (3, 3, 3), acc, case)
        elif case.get("order") == "probe,run":
            check_cube([b, run], [c[1], c[0]], (3, 3), acc, case)
        else:
            check_cube([run, b], c, (3, 3), acc, case, layout=case.get("layout"))
    elif "X" in case:
        a = numpy.array(case["data"], dtype=numpy.int64)
        if "data2" in case:
            b = numpy.array(case["data2"], dtype=numpy.int64)
            if case.get("order") == "yX":
                check_cube([b, a], [case["common2"], case["common"]], (3, case["X"]), acc, case)
            else:
                check_cube([a, b], [case["common"], case["common2"]], (case["X"], 3), acc, case)
        else:
            check_cube([a], [case["common"]], (case["X"],), acc, case)
    elif case.get("dims") == 0:
        N = case["N"]
        compare(ccube([]).count(N=N), ccube([]).count(N=N, return_missing_as=(0, False)), numpy.array(N), acc, case, "count0")
    else:
        denses = [numpy.array(d, dtype=numpy.int64).reshape((case["N"],) + tuple(ex)) for d, ex in zip(case["data"], case["extras"])]
        check_cube(denses, case["commons"], (case["E"] + 1,) * len(denses), acc, case)
    for v in acc.violations:
        print("  %s :: %s" % (v["site"], v["detail"][:600]))
    return bool(acc.violations)
