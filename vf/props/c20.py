"""C20: an interrupt raised at any cancellation point stops the cube cleanly (fault enumeration + sched engine)."""
import itertools
import json
import multiprocessing
import time

from .. import conformance  # before pools are patched
from .. import core, harness, sched

ID = "C20"
LEVEL = "model_checking"
EARLY_POOL_PATCH = True

SERIAL = ["c1", "c2", "c3", "c22", "c6", "c8", "x8", "c3x1", "c2x2", "c3z", "c2x2z", "c3p", "x1", "x3", "x22", "x6", "x3x1", "x2x2", "x3p", "x2x2p",
          "x3big", "c3big", "x1300", "c1300", "c3nt"]
POOLED = {
    "quick": [("c3", 2, "line", 1), ("x3", 2, "line", 1), ("c22", 3, "line", 0), ("x22", 2, "line", 0), ("c3", 1, "line", 0), ("c3z", 2, "line", 0), ("x3p", 2, "line", 0), ("c8", 1, "line", 0), ("x8", 1, "line", 0), ("c8", 2, "line", 0), ("c3nt", 2, "line", 0)],
    "thorough": [("c3", 2, "line", 1), ("x3", 2, "line", 1), ("c3", 3, "line", 1), ("x3", 3, "line", 1), ("c22", 2, "line", 1), ("x22", 2, "line", 1),
                 ("c2x2", 3, "line", 1), ("x2x2", 2, "line", 1), ("c3", 2, "instruction", 1), ("x3", 2, "instruction", 1), ("c3", 2, "line", 2), ("c3", 1, "line", 0), ("x3", 16, "line", 1), ("c3z", 2, "line", 1), ("c2x2z", 2, "line", 1), ("x3p", 2, "line", 1), ("c3p", 3, "line", 1), ("c8", 1, "line", 0), ("x8", 1, "line", 0), ("c8", 2, "line", 1), ("x8", 2, "line", 0), ("c3nt", 2, "line", 1)],
}


class Interrupted(Exception):
    pass


def _mk(name, base):
    return type(name, (base,), {})


# the caller's interrupt may be ANY exception class: classes that library code (or a pool wrapper) might trap for its own reasons
EXC = {"Interrupted": Interrupted}
for _b in (RuntimeError, ValueError, KeyError, IndexError, TypeError, AttributeError, OSError, ZeroDivisionError, FloatingPointError, MemoryError,
           LookupError, ArithmeticError, AssertionError, NotImplementedError, BufferError, multiprocessing.TimeoutError, StopIteration, StopAsyncIteration):
    EXC["I" + _b.__name__] = _mk("I" + _b.__name__, _b)
EXC_ALT = [n for n in EXC if n != "Interrupted"]


class Callback:
    """Raises a fresh exception of class `exc` on the invocation ordinals in `at` (global count over all tasks)."""

    def __init__(self, at, exc="Interrupted"):
        self.at = set(at)
        self.calls = 0
        self.raised = []
        self.cls = EXC[exc]

    def __call__(self):
        i = self.calls
        self.calls += 1
        if i in self.at:
            e = self.cls(i)
            self.raised.append(e)
            raise e


def describe(tier):
    return {
        "rule": "serial (each case on a fresh cube AND on a cube that has already completed one evaluation): for every harness cube (1,2,3,4,6 sub-cubes; both cube types; incl. no extra axis) and EVERY invocation index i of the callback, the callback raises a "
        "fresh exception on its i-th call: calculate must raise that very object; with a never-raising callback it must return the serial result and the callback must "
        "have been consulted exactly once per sub-cube; afterwards the SAME cube and aggregate objects, callback disarmed, must give bit-for-bit the result of a fresh "
        "evaluation. Pooled: for EVERY subset S of invocation ordinals and EVERY schedule within the preemption bound (scheduling point at every line/instruction of "
        "catii code in a worker), calculate raises one of the raised objects iff S is non-empty, the callback is consulted once per sub-cube, and the follow-up "
        "evaluation on the same objects equals fresh. The interrupt is an instance of a plain Exception subclass and, at every single invocation (serial: all harnesses; pooled: six harness/pool-size pairs), of a subclass of each of %d "
        "standard exception classes that library or pool code might trap for its own reasons (RuntimeError, ValueError, KeyError, IndexError, TypeError, AttributeError, OSError, arithmetic errors, MemoryError, multiprocessing.TimeoutError ...). "
        "A state = a scheduling point reached; a transition = one scheduled step." % len(EXC_ALT),
        "plan": {"serial": SERIAL, "pooled": [list(p) for p in POOLED[tier]]},
        "assumptions": [
            "interrupt classes derive from Exception: the stdlib worker loop only traps Exception, so a BaseException-only class would kill a worker thread inside the standard library",
            "pooled mode uses the model pool (see C16) - ThreadPool.map finishes all chunks and raises the first recorded failure",
        ],
    }


_expected = {}


def expected(h):
    if h not in _expected:
        cube, funcs = harness.make(h, parallel=False)
        _expected[h] = harness.freeze(cube.calculate(funcs))
    return _expected[h]


def serial_case(h, at, exc="Interrupted", warm=False):
    """Returns violation dict or None, and the number of callback calls.  warm: the cube and the function objects have already been through one
    complete evaluation (no callback installed) when the interrupting callback arrives."""
    k = harness.subcubes(h)
    cube, funcs = harness.make(h, parallel=False)
    if warm:
        try:
            if harness.freeze(cube.calculate(funcs)) != expected(h):
                return {"harness": h, "mode": "serial", "at": sorted(at), "exc": exc, "warm": True, "kind": "result-differs", "detail": "first evaluation differs from the expected result"}
        except Exception as e:  # noqa
            return {"harness": h, "mode": "serial", "at": sorted(at), "exc": exc, "warm": True, "kind": "raised", "detail": "first evaluation raised %r" % (e,)}
    cb = Callback(at, exc)
    cube.check_interrupt = cb
    try:
        out = ("ok", cube.calculate(funcs))
    except Exception as e:  # noqa
        out = ("exc", e)
    case = {"harness": h, "mode": "serial", "at": sorted(at), "exc": exc, "warm": warm}
    if at and min(at) < k:
        if out[0] != "exc":
            return dict(case, kind="not-raised", detail="callback raised on invocation %d but calculate returned" % min(at))
        if not cb.raised or out[1] is not cb.raised[0]:
            return dict(case, kind="wrong-exception", detail="calculate raised %r, callback raised %r" % (out[1], cb.raised))
        if cb.calls != min(at) + 1:
            return dict(case, kind="not-stopped", detail="callback consulted %d times after raising on invocation %d" % (cb.calls, min(at)))
    else:
        if out[0] != "ok":
            return dict(case, kind="raised", detail="calculate raised %r although the callback never raised" % (out[1],))
        if cb.calls != k:
            return dict(case, kind="callback-count", detail="callback consulted %d times for %d sub-cubes" % (cb.calls, k))
        if harness.freeze(out[1]) != expected(h):
            return dict(case, kind="result-differs", detail="result with a never-raising callback differs from the plain result")
    # same objects again: after an interrupt, first interrupted by another class of exception at the last invocation (must stop with that object) ...
    if out[0] == "exc":
        cb2 = Callback((k - 1,), "IRuntimeError" if exc != "IRuntimeError" else "Interrupted")
        cube.check_interrupt = cb2
        try:
            cube.calculate(funcs)
            return dict(case, kind="reuse-second-interrupt", detail="the second evaluation was interrupted at invocation %d (%d consulted) but calculate returned" % (k - 1, cb2.calls))
        except Exception as e:  # noqa
            if not any(e is r for r in cb2.raised):
                return dict(case, kind="reuse-second-interrupt", detail="the second evaluation was interrupted with %r but calculate raised %r" % (cb2.raised, e))
    # ... then with the callback disarmed
    cube.check_interrupt = None
    try:
        again = harness.freeze(cube.calculate(funcs))
    except Exception as e:  # noqa
        return dict(case, kind="reuse-raised", detail="second calculate on the same objects raised %r" % (e,))
    if again != expected(h):
        return dict(case, kind="reuse-differs", detail="second calculate on the same objects %r != fresh %r" % (harness.thaw_repr(again), harness.thaw_repr(expected(h))))
    return None


def pooled_body(h, w, at, exc="Interrupted"):
    def body():
        cube, funcs = harness.make(h, parallel=True, poolsize=w)
        cb = Callback(at, exc)
        cube.check_interrupt = cb
        try:
            out = ("ok", harness.freeze(cube.calculate(funcs)))
        except Exception as e:  # noqa
            out = ("exc", e)
        cb.pending_at_return = sched.background_pending()
        cube.check_interrupt = None
        # follow-up on the SAME objects (default schedule under a scheduler of its own, so that it does not add branching to the
        # exploration): after an interrupted run, first a pooled evaluation interrupted by an exception of ANOTHER class at its first
        # invocation - it must stop with that very object, not with anything left over from the earlier run - then pooled undisturbed, then serial
        outer = sched.CURRENT
        second = None
        try:
            sched.CURRENT = sched.Scheduler()
            if out[0] == "exc":
                cb2 = Callback((0,), "IRuntimeError" if exc != "IRuntimeError" else "Interrupted")
                cube.check_interrupt = cb2
                try:
                    cube.calculate(funcs)
                    second = "the follow-up evaluation was interrupted at its first invocation (%d consulted) but calculate returned" % cb2.calls
                except Exception as e:  # noqa
                    if not any(e is r for r in cb2.raised):
                        second = "the follow-up evaluation was interrupted with %r but calculate raised %r" % (cb2.raised, e)
                cube.check_interrupt = None
            try:
                again_pooled = ("ok", harness.freeze(cube.calculate(funcs)))
            except Exception as e:  # noqa
                again_pooled = ("exc", e)
        finally:
            sched.CURRENT = outer
        cb.second = second
        cube.parallel = False
        try:
            again = ("ok", harness.freeze(cube.calculate(funcs)))
        except Exception as e:  # noqa
            again = ("exc", e)
        if again_pooled[0] != "ok" or (again[0] == "ok" and again_pooled[1] != again[1]):
            again = again_pooled if again_pooled[0] != "ok" else ("ok", again_pooled[1])
        return out, cb, again

    return body


def pooled_check(h, at):
    k = harness.subcubes(h)
    exp = expected(h)

    def check(s, res):
        if res[0] != "ok":
            return {"kind": "harness-raised", "detail": repr(res[1])}
        out, cb, again = res[1]
        live = [i for i in at if i < k]
        if getattr(cb, "pending_at_return", 0):
            return {"kind": "not-stopped", "detail": "calculate %s while %d sub-cube task(s) were still queued on its pool: the evaluation has not stopped (the workers go on consulting the callback and "
                    "writing results while the caller already handles the exception)" % ("raised" if out[0] == "exc" else "returned", cb.pending_at_return)}
        if live:
            if out[0] != "exc":
                return {"kind": "not-raised", "detail": "callback raised on invocations %r but calculate returned" % (live,)}
            if not any(out[1] is e for e in cb.raised):
                return {"kind": "wrong-exception", "detail": "calculate raised %r, callback raised %r" % (out[1], cb.raised)}
        else:
            if out[0] != "ok":
                return {"kind": "raised", "detail": "calculate raised %r although the callback never raised" % (out[1],)}
            if out[1] != exp:
                return {"kind": "result-differs", "detail": "pooled result differs from serial"}
        # once per sub-cube when nothing is interrupted; with an interrupt the pool may legitimately skip the rest of the
        # interrupted task's chunk (list(map(f, chunk)) stops at the exception), so only "never more than once" is claimed
        if (not live and cb.calls != k) or cb.calls > k:
            return {"kind": "callback-count", "detail": "callback consulted %d times for %d sub-cubes" % (cb.calls, k)}
        if getattr(cb, "second", None):
            return {"kind": "reuse-second-interrupt", "detail": cb.second}
        if again[0] != "ok":
            return {"kind": "reuse-raised", "detail": "follow-up calculate raised %r" % (again[1],)}
        if again[1] != exp:
            return {"kind": "reuse-differs", "detail": "follow-up calculate on the same objects %r != fresh %r" % (harness.thaw_repr(again[1]), harness.thaw_repr(exp))}
        return None

    return check


def run_pooled(args):
    h, w, gran, bound, at = args[:5]
    exc = args[5] if len(args) > 5 else "Interrupted"
    try:
        sched.patch_pools()
        sched.install(gran)
        stats = {}
        body = pooled_body(h, w, at, exc)
        v = sched.explore(body, pooled_check(h, at), max(bound, 0), stats=stats, limit=1 if bound < 0 else None)
        if v and v.get("kind") == "diverged":
            return {"error": "schedule replay diverged: %s" % v["detail"]}
        if v:
            ra, oa = sched.execute(body, v["choices"])
            rb, ob = sched.execute(body, v["choices"])
            if ra.points != rb.points:
                return {"error": "failing schedule of %s did not replay identically" % h}
            v.update(harness=h, poolsize=w, granularity=gran, bound=bound, at=sorted(at), mode="pooled", exc=exc)
        return {"stats": {"executions": stats.get("executions", 0), "points": stats.get("points", 0), "orders": stats.get("orders", set())}, "violation": v, "key": (h, w, gran, bound)}
    except Exception:
        import traceback

        return {"error": traceback.format_exc()}


def main(tier, all_violations=False, t0=None):
    t0 = t0 or time.time()
    desc = describe(tier)
    conf = conformance.check_in_child("quick")
    if conf["mismatches"]:
        print("INFRASTRUCTURE: model pool does not conform to the real ThreadPool: %s" % conf["mismatches"][:3])
        return 2
    viol = None
    # serial fault enumeration (cheap; main process)
    serial_cases = 0
    samples = []
    for h in SERIAL:
        k = harness.subcubes(h)
        ats = [()] + [(i,) for i in range(k)] + [(i, j) for i in range(k) for j in range(i + 1, k)][:6] + [(k,), (k + 3,)]
        if k > 50:
            ats = [(), (0,), (1,), (k // 2,), (k - 2,), (k - 1,), (k,)]
        for at in ats:
            for warm in (False, True):
                serial_cases += 1
                v = serial_case(h, at, warm=warm)
                if v and viol is None:
                    viol = v
        # every other exception class, at every single invocation
        for exc in EXC_ALT:
            for i in (range(k) if k <= 50 else (0, k - 1)):
                serial_cases += 1
                v = serial_case(h, (i,), exc)
                if v and viol is None:
                    viol = v
        samples.append({"mode": "serial", "harness": h, "sub_cubes": k, "raise_at": "every index 0..%d, pairs, never" % (k - 1)})
    # pooled: every subset x every schedule
    tasks = []
    for h, w, gran, bound in POOLED[tier]:
        k = harness.subcubes(h)
        if k <= 5:
            subsets = [at for r in range(0, k + 1) for at in itertools.combinations(range(k), r)]
        else:
            # many sub-cubes: none, every single invocation, first+last, all
            subsets = [()] + [(i,) for i in range(k)] + [(0, k - 1), tuple(range(k))]
        for at in subsets:
            tasks.append((h, w, gran, bound, at))
    # every other exception class in pooled mode: every single invocation, default schedule and schedules with one preemption on the small harnesses
    # scale harnesses in pooled mode: the default schedule only (bound -1), no interrupt / first / last invocation
    for h, w in (("x3big", 2), ("c3big", 2), ("x1300", 2), ("c1300", 3)):
        k = harness.subcubes(h)
        for at in ((), (0,), (k - 1,)):
            tasks.append((h, w, "line", -1, at))
    for h, w, bound in (("c3", 2, 1), ("x3", 2, 1), ("c8", 2, 0), ("x8", 2, 0), ("x3", 1, 0), ("c3", 1, 0)):
        k = harness.subcubes(h)
        for exc in EXC_ALT:
            for i in range(k):
                tasks.append((h, w, "line", bound if exc == "IRuntimeError" else 0, (i,), exc))
    # ... and several invocations raising an exception of another class in one pooled evaluation (what the library keeps about one interrupt
    # must not survive into the next evaluation)
    for h, w in (("c3", 2), ("x3", 2), ("c8", 2), ("x8", 2)):
        k = harness.subcubes(h)
        for exc in EXC_ALT:
            for at in ((0, 1), (0, k - 1), tuple(range(k))):
                tasks.append((h, w, "line", 1 if (exc == "IStopIteration" and k <= 3) else 0, at, exc))
    per = {}
    if viol is None:
        pool = multiprocessing.get_context("fork").Pool(min(core.NPROC, len(tasks)))
        try:
            for r in pool.imap(run_pooled, tasks, chunksize=1):
                if "error" in r:
                    print("INFRASTRUCTURE: %s" % r["error"])
                    return 2
                st = per.setdefault(r["key"], {"executions": 0, "points": 0, "orders": set(), "subsets": 0})
                st["executions"] += r["stats"]["executions"]
                st["points"] += r["stats"]["points"]
                st["orders"] |= r["stats"]["orders"]
                st["subsets"] += 1
                if r["violation"] and viol is None:
                    viol = r["violation"]
                    break
        finally:
            pool.terminate()
            pool.join()
    execs = sum(s["executions"] for s in per.values())
    points = sum(s["points"] for s in per.values())
    for k2, s in sorted(per.items()):
        samples.append({"mode": "pooled", "harness": k2[0], "poolsize": k2[1], "granularity": k2[2], "bound": k2[3], "subsets_of_invocations": s["subsets"],
                        "schedules": s["executions"], "distinct_task_completion_orders": len(s["orders"])})
    cov = {
        "states": max(points, 1), "transitions": max(points, 1), "traces_validated_against_impl": conf["real_runs"], "samples": samples,
        "serial_fault_cases": serial_cases, "pooled_schedules": execs, "pooled_fault_subsets": len(tasks), "exhaustive": viol is None,
        "rule": desc["rule"], "bounds": desc["plan"], "evaluations": serial_cases + execs, "distinct_nontrivial": serial_cases + len(tasks),
        "model_pool_conformance": {k: conf[k] for k in ("configs", "real_runs", "model_schedules")},
    }
    code = 0
    if viol:
        rec = {"property": ID, "site": "%s:%s:%s" % (viol.get("mode"), viol.get("harness"), viol.get("kind")), "detail": viol.get("detail", "")[:3000],
               "case": {k: viol.get(k) for k in ("harness", "mode", "at", "poolsize", "granularity", "bound", "choices", "kind", "exc", "warm")}}
        path = core.write_replay(ID, rec)
        print("mode=%s harness=%s at=%s kind=%s exc=%s" % (viol.get("mode"), viol.get("harness"), viol.get("at"), viol.get("kind"), viol.get("exc")))
        print("detail=%s" % viol.get("detail", "")[:800])
        print("VIOLATION property=%s replay=%s" % (ID, path))
        code = 1
    wall = time.time() - t0
    core.write_evidence(ID, tier, LEVEL, cov, desc["assumptions"], wall, 1 if viol else 0)
    print("%s tier=%s serial_cases=%d pooled_subsets=%d pooled_schedules=%d points=%d violations=%d wall=%.1fs" % (ID, tier, serial_cases, len(tasks), execs, points, 1 if viol else 0, wall))
    return code


def replay(case, site=None):
    if case.get("mode") == "serial":
        v = serial_case(case["harness"], tuple(case["at"]), case.get("exc") or "Interrupted", warm=bool(case.get("warm")))
        print(v)
        return v is not None
    sched.patch_pools()
    sched.install(case["granularity"])
    at = tuple(case["at"])
    s, res = sched.execute(pooled_body(case["harness"], case["poolsize"], at, case.get("exc") or "Interrupted"), case["choices"])
    v = pooled_check(case["harness"], at)(s, res)
    print(v)
    return v is not None
