"""C05: cube results are independent of which category is stored as the common value (metamorphic)."""
import itertools

import numpy

from .. import cubes as Q
from .. import models as M
from . import c03

ID = "C05"
LEVEL = "exploration"

SETS = {
    "quick": [
        dict(D=1, Ns=[0, 1, 2], E=2, wl=2, Ks=[0, 2], fl=1, forms=["nan", "int"], vals=["pow2"], wforms=False),
        dict(D=1, Ns=[3], E=2, wl=1, Ks=[0, 2], fl=1, forms=["nan"], vals=["pow2"], wforms=False),
        dict(D=2, Ns=[1], E=2, wl=1, Ks=[0, 2], fl=1, forms=["nan"], vals=["pow2"], wforms=False),
        dict(D=2, Ns=[2], E=2, wl=1, Ks=[0], fl=1, forms=["nan"], vals=["pow2"], wforms=False),
        dict(D=2, Ns=[3], E=2, wl=0, Ks=[0], fl=0, forms=["nan"], vals=["pow2"], wforms=False),
        dict(D=3, Ns=[1], E=2, wl=0, Ks=[0], fl=0, forms=["nan"], vals=["pow2"], wforms=False),
        dict(D=3, Ns=[2], E=2, wl=0, Ks=[], fl=0, forms=["nan"], vals=["pow2"], wforms=False),
        # dimensions with extra axes (2-D / 3-D indexes are re-encoded column by column)
        dict(D=1, Ns=[1, 2], E=2, wl=1, Ks=[0], fl=1, forms=["nan"], vals=["pow2"], wforms=False, extras=[[2]]),
        dict(D=1, Ns=[2], E=2, wl=0, Ks=[0], fl=0, forms=["nan"], vals=["pow2"], wforms=False, extras=[[3]]),
        dict(D=2, Ns=[1, 2], E=2, wl=0, Ks=[0], fl=0, forms=["nan"], vals=["pow2"], wforms=False, extras=[[2], []]),
    ],
    "thorough": [
        dict(D=1, Ns=[0, 1, 2, 3], E=2, wl=2, Ks=[0, 2], fl=2, forms=["nan", "pair-huge", "int"], vals=["pow2", "mixed"], wforms=True),
        dict(D=1, Ns=[4], E=3, wl=1, Ks=[0], fl=1, forms=["nan"], vals=["pow2"], wforms=False),
        dict(D=2, Ns=[1, 2], E=2, wl=2, Ks=[0, 2], fl=1, forms=["nan", "int"], vals=["pow2"], wforms=False),
        dict(D=2, Ns=[3], E=2, wl=1, Ks=[0, 2], fl=1, forms=["nan"], vals=["pow2"], wforms=False),
        dict(D=3, Ns=[1, 2], E=2, wl=1, Ks=[0], fl=1, forms=["nan"], vals=["pow2"], wforms=False),
        dict(D=3, Ns=[3], E=2, wl=0, Ks=[0], fl=1, forms=["nan"], vals=["pow2"], wforms=False),
        dict(D=1, Ns=[1, 2, 3], E=2, wl=1, Ks=[0, 2], fl=1, forms=["nan"], vals=["pow2"], wforms=False, extras=[[2]]),
        dict(D=1, Ns=[1, 2], E=2, wl=1, Ks=[0], fl=1, forms=["nan"], vals=["pow2"], wforms=False, extras=[[3]]),
        dict(D=2, Ns=[1, 2], E=2, wl=1, Ks=[0], fl=1, forms=["nan"], vals=["pow2"], wforms=False, extras=[[2], []]),
        dict(D=2, Ns=[1, 2], E=2, wl=0, Ks=[0], fl=0, forms=["nan"], vals=["pow2"], wforms=False, extras=[[], [2]]),
        dict(D=2, Ns=[1], E=2, wl=0, Ks=[0], fl=0, forms=["nan"], vals=["pow2"], wforms=False, extras=[[2], [2]]),
    ],
}


def describe(tier):
    return {
        "rule": "for every data array per dimension (rows N, E categories; one-axis dimensions and dimensions with one extra axis (N,2), (N,3)) and every call of C03's sub-space (aggregate x policy x weights x fact): the base cube uses "
        "harness-built dimensions with common 0 and explicit shape E+2; then for EVERY combination (v_1..v_D) in (0..E+1)^D each dimension is replaced by a rebuilt "
        "copy re-encoded with the library's shift_common(v_d) (v = E, E+1 never occur in the data) and the result must equal the base (missing cells exactly, "
        "values within 1e-9 x grand total); then every dimension is re-normalised with shift_common() and compared again; every combination is also reached through the other door, iindex.from_array(array, common=v); a SCALE family re-expresses two dimensions of 700 / 20001 (70001) rows through all 25 pairs of common values (present, rare, absent); the unweighted count is also taken with the cube shape INFERRED from the re-expressed dimensions (must evaluate, cover the categories present, agree on the shared cells); and ONE set of index objects is evaluated, re-expressed in place through the whole list of common-value combinations and evaluated after each step - by a new cube and by ONE cube object built before the first change (anything an index memoises must follow its common value). shift_common must leave the dense "
        "content unchanged. evaluations = re-encoded cube evaluations. Non-trivial: some dimension has >=2 distinct values and the combination differs from "
        "the base encoding. Distinct = distinct (data, call, combination).",
        "bounds": {"sets": SETS[tier]},
        "exhaustive": True,
        "assumptions": ["the explicit cube shape contains every common value used (documented precondition of an explicit shape)",
                        "three-axis indexes are not re-encoded: shift_common only handles 1-D and 2-D indexes, and the operation alphabet of C06 scopes 3-D indexes to slicing and slice iteration"],
    }


def calls_for(N, cfg):
    if cfg["fl"] == 0:
        # counts and one fact pattern per aggregate only
        for c in c03.calls(N, dict(cfg, fl=1)):
            if c[3] is None or not any(c[3][2]) or all(c[3][2]):
                yield c
    else:
        yield from c03.calls(N, cfg)


def data_space(cfg, N):
    """Per-dimension list of all dense arrays (shape (N,) + extra extents) over 0..E-1."""
    extras = cfg.get("extras") or [[]] * cfg["D"]
    return [list(M.all_arrays((N,) + tuple(ex), range(cfg["E"]))) for ex in extras]


def blocks(tier):
    out = [("scale", {"N": N, "design": g}) for N in SCALE_NS[tier] for g in (0, 1)]
    for si, cfg in enumerate(SETS[tier]):
        for N in cfg["Ns"]:
            D, E = cfg["D"], cfg["E"]
            ndata = 1
            for sp in data_space(cfg, N):
                ndata *= len(sp)
            ncalls = sum(1 for _ in calls_for(N, cfg))
            per = max(1, 3000 // max(1, ncalls * (2 * (E + 2) ** D + 1)))
            for a in range(0, ndata, per):
                out.append(("set", {"tier": tier, "si": si, "N": N, "a0": a, "a1": min(ndata, a + per)}))
    return out


def same(a, b, grand):
    va, ma = a
    vb, mb = b
    if va.shape != vb.shape:
        return "shape %r vs base %r" % (va.shape, vb.shape)
    if not numpy.array_equal(ma, mb):
        return "missing cells %r, base %r (values %r, base %r)" % (ma.astype(int).tolist(), mb.astype(int).tolist(), va.tolist(), vb.tolist())
    ok = ~mb
    if ok.any() and not numpy.all(numpy.abs(va[ok].astype(float) - vb[ok].astype(float)) <= 1e-9 * max(1.0, abs(grand))):
        return "values %r, base %r" % (va.tolist(), vb.tolist())
    return None


def check_data(datas, E, N, cfg, acc, only_call=None, only_combo=None):
    from catii.ccubes import ccube

    D = len(datas)
    denses = [numpy.array(t, dtype=numpy.int64) for t in datas]
    datas = [d.tolist() for d in denses]
    shape = (E + 2,) * D
    base_dims = [M.build_index(d, 0) for d in denses]
    combos = list(itertools.product(range(E + 2), repeat=D)) if only_combo is None else [tuple(only_combo)]
    # re-encoded dimensions, shared by all calls of this data (aggregations must not modify them: C17)
    enc = {}
    for combo in combos:
        dims, renorm = [], []
        for d, v, dense in zip(range(D), combo, denses):
            ix = M.build_index(dense, 0)
            try:
                ix.shift_common(v)
                if not numpy.array_equal(M.read_dense(ix), dense):
                    acc.violation("shift_common:changed-content", {"data": [list(t) for t in datas], "dim": d, "to": v}, "dense content after shift_common(%d): %r" % (v, M.read_dense(ix).tolist()))
                ix2 = M.build_index(dense, 0)
                ix2.shift_common(v)
                ix2.shift_common()
                if not numpy.array_equal(M.read_dense(ix2), dense):
                    acc.violation("shift_common:changed-content", {"data": [list(t) for t in datas], "dim": d, "to": v, "renormalised": True}, "dense content after re-normalising: %r" % (M.read_dense(ix2).tolist(),))
            except M.ModelError as e:
                acc.violation("shift_common:malformed", {"data": [list(t) for t in datas], "dim": d, "to": v}, repr(e))
                continue
            except Exception as e:  # noqa
                acc.violation("shift_common:raised", {"data": [list(t) for t in datas], "dim": d, "to": v}, repr(e))
                continue
            dims.append(ix)
            renorm.append(ix2)
        if len(dims) == D:
            enc[combo] = (dims, renorm)
    nt_cube = any(len(set(d.reshape(-1).tolist())) > 1 for d in denses)
    for call in (calls_for(N, cfg) if only_call is None else [only_call]):
        agg, ignore, ws, fs = call
        f_arg, x, valid, K, w_arg, w, wok = c03.realise(N, ws, fs)
        grand = Q.grand_total(x, w, N, K)
        case0 = {"data": [list(t) for t in datas], "E": E, "agg": agg, "ignore": ignore, "weights": ws, "fact": fs}

        def ev(dims):
            f2, _, _, _, w2, _, _ = c03.realise(N, ws, fs)
            return Q.normalise(Q.call_cube(ccube(dims, interacting_shape=shape), agg, f2, w2, ignore, Q.NaN), Q.NaN)

        try:
            base = ev(base_dims)
        except Exception as e:  # noqa
            acc.violation("base:raised", case0, repr(e))
            continue
        for combo, (dims, renorm) in enc.items():
            for tag, dd in (("shifted", dims), ("renormalised", renorm)) + ((("shifted, saved, loaded", None),) if agg == "count" else ()):
                if dd is None:
                    try:
                        dd = [c03._through_indx(ix) for ix in dims]
                    except Exception as e:  # noqa
                        acc.violation("ccube:%s:%s:raised" % (agg, tag), dict(case0, combo=list(combo), stage=tag), repr(e))
                        continue
                case = dict(case0, combo=list(combo), stage=tag, commons=[ix.common for ix in dd])
                try:
                    r = ev(dd)
                except Exception as e:  # noqa
                    acc.violation("ccube:%s:%s:raised" % (agg, tag), case, repr(e))
                    continue
                msg = same(r, base, grand)
                if msg:
                    acc.violation("ccube:%s:%s:differs" % (agg, tag), case, msg)
                acc.count("reencoded_evals")
        # re-expression through the OTHER door: the index built directly from the array with the common value given
        if agg in ("count", "mean"):
            from catii.iindexes import iindex

            # one tally per dimension, computed once and handed to every from_array call below (as an application would)
            tallies = []
            for dn in denses:
                t = {}
                for xv in dn.flat:
                    t[int(xv)] = t.get(int(xv), 0) + 1
                tallies.append(t)
            for ci, combo in enumerate(enc):
                case = dict(case0, combo=list(combo), stage="from_array(common=v)")
                try:
                    fa = [iindex.from_array(dn, counts=(t if ci % 2 else None), common=int(v)) for dn, v, t in zip(denses, combo, tallies)]
                    if agg == "count" and ci % 3 == 0:
                        fa = [c03._through_indx(ix) for ix in fa]      # ... and through IndxIO.save / load on the way to the cube
                    msg = same(ev(fa), base, grand)
                except Exception as e:  # noqa
                    acc.violation("ccube:%s:from_array:raised" % agg, case, repr(e))
                    continue
                if msg:
                    acc.violation("ccube:%s:from_array:differs" % agg, case, msg)
                acc.count("from_array_evals")
        # inferred cube shape (no interacting_shape given): an absent common value may lie beyond the data; the cube must still evaluate,
        # cover every category present and agree with the base on the cells they share (everything beyond the base's extent is empty)
        if agg == "count" and ws == ("none",):
            for combo, (dims, renorm) in enc.items():
                case = dict(case0, combo=list(combo), stage="inferred-shape", commons=[ix.common for ix in dims])
                try:
                    cube = ccube(dims)
                    got = Q.normalise(Q.call_cube(cube, agg, None, None, ignore, Q.NaN), Q.NaN)
                except Exception as e:  # noqa
                    acc.violation("ccube:count:inferred-shape:raised", case, repr(e))
                    continue
                need = [max(int(dn.max()) if dn.size else 0, 0) + 1 for dn in denses]
                gv, gm = got
                if gv.ndim != base[0].ndim or any(gs < n for gs, n in zip(gv.shape[gv.ndim - D:], need)):
                    acc.violation("ccube:count:inferred-shape:too-small", case, "inferred result shape %r does not cover the categories present (%r needed)" % (gv.shape, need))
                    continue
                sl = tuple([slice(None)] * (gv.ndim - D) + [slice(0, min(a, b)) for a, b in zip(gv.shape[gv.ndim - D:], base[0].shape[base[0].ndim - D:])])
                msg = same((gv[sl], gm[sl]), (base[0][sl], base[1][sl]), grand)
                if msg:
                    acc.violation("ccube:count:inferred-shape:differs", case, msg)
                    continue
                outside = numpy.ones(gv.shape, dtype=bool)
                outside[sl] = False
                if outside.any() and not gm[outside].all():
                    acc.violation("ccube:count:inferred-shape:differs", case, "cells beyond every category present are not all missing: %r" % (gv.tolist(),))
                acc.count("inferred_shape_evals")
        # the same index OBJECTS evaluated, re-expressed in place, evaluated again ... (anything an index memoises must follow its common value)
        if True:
            live = [M.build_index(d, 0) for d in denses]
            try:
                ev(live)
                # ... and ONE cube object built over them before any change: a cube holds its dimensions, not a snapshot of them
                held = ccube(live, interacting_shape=shape)

                def ev_held():
                    f2, _, _, _, w2, _, _ = c03.realise(N, ws, fs)
                    return Q.normalise(Q.call_cube(held, agg, f2, w2, ignore, Q.NaN), Q.NaN)

                ev_held()
                for combo in enc:
                    for ix, v in zip(live, combo):
                        ix.shift_common(v)
                    case = dict(case0, combo=list(combo), stage="in-place", commons=[ix.common for ix in live])
                    msg = same(ev(live), base, grand)
                    if msg:
                        acc.violation("ccube:%s:in-place:differs" % agg, case, msg)
                        break
                    msg = same(ev_held(), base, grand)
                    if msg:
                        acc.violation("ccube:%s:in-place-same-cube:differs" % agg, dict(case, stage="in-place"), "the cube object built before the dimensions were re-expressed: " + msg)
                        break
                    acc.count("in_place_evals")
            except Exception as e:  # noqa
                acc.violation("ccube:%s:in-place:raised" % agg, dict(case0, stage="in-place"), repr(e))
        for combo in enc:
            acc.case((tuple(d.tobytes() for d in denses), tuple(d.shape for d in denses), agg, ignore, ws, fs, combo), nontrivial=nt_cube and any(combo), outcome=(agg, int(base[1].sum()) > 0), sample=lambda: dict(case0, combo=list(combo)))


SCALE_NS = {"quick": [700, 20001], "thorough": [700, 20001, 70001]}


def check_scale(N, design, acc, only=None):
    """Thousands of rows: every pair of common values (present, rare, absent) for two dimensions, re-expressed with shift_common on an index
    built by from_array; count / weighted sum / mean must equal the base encoding (and the base is checked against the group-by by C03)."""
    from catii.ccubes import ccube
    from catii.iindexes import iindex

    denses = c03.scale_data(N, design)
    if denses[0].ndim == 2:
        denses = [denses[0][:, 0].copy(), denses[1]]
    shape = (5, 5)
    calls = [c for c in c03.scale_calls(N) if c[0] in ("count", "sum", "mean")][:7]
    for ci, call in enumerate(calls):
        if only is not None and ci != only[0]:
            continue
        agg, ignore, ws, fs = call
        f_arg, x, valid, K, w_arg, w, wok = c03.realise(N, ws, fs)
        grand = Q.grand_total(x, w, N, K)

        def ev(dims):
            f2, _, _, _, w2, _, _ = c03.realise(N, ws, fs)
            return Q.normalise(Q.call_cube(ccube(dims, interacting_shape=shape), agg, f2, w2, ignore, Q.NaN), Q.NaN)

        base = ev([iindex.from_array(d, common=0) for d in denses])
        for combo in itertools.product(range(5), repeat=2):
            if only is not None and list(combo) != only[1]:
                continue
            case = {"scale": [N, design], "call_index": ci, "agg": agg, "combo": list(combo)}
            try:
                dims = [iindex.from_array(d, common=0) for d in denses]
                for ix, v in zip(dims, combo):
                    ix.shift_common(v)
                msg = same(ev(dims), base, grand)
                if not msg:
                    for ix in dims:
                        ix.shift_common()
                    msg = same(ev(dims), base, grand)
                    if msg:
                        msg = "after re-normalising: " + msg
            except Exception as e:  # noqa
                acc.violation("ccube:%s:scale:raised" % agg, case, repr(e))
                continue
            if msg:
                acc.violation("ccube:%s:scale:differs" % agg, case, msg)
            acc.count("scale_evals")
            acc.case(("scale", N, design, ci, combo), nontrivial=True, outcome=("scale", agg), sample=lambda: case)


def run_block(family, p, acc):
    if family == "scale":
        check_scale(p["N"], p["design"], acc)
        return
    cfg = SETS[p["tier"]][p["si"]]
    N, D, E = p["N"], cfg["D"], cfg["E"]
    for datas in itertools.islice(itertools.product(*data_space(cfg, N)), p["a0"], p["a1"]):
        check_data(list(datas), E, N, cfg, acc)


def replay(case, site=None):
    from ..core import Acc

    acc = Acc(ID, [], stop_at_first=False)
    if case.get("scale"):
        check_scale(case["scale"][0], case["scale"][1], acc, only=(case["call_index"], case["combo"]))
        for v in acc.violations:
            print("  %s :: %s" % (v["site"], v["detail"][:700]))
        return bool(acc.violations)
    datas = [numpy.array(t, dtype=numpy.int64) for t in case["data"]]
    cfg = dict(wl=0, Ks=[0], fl=1, forms=["nan"], vals=["pow2"], wforms=True)
    if "agg" in case:
        call = (case["agg"], case["ignore"], c03._tupleize(case["weights"]), c03._tupleize(case["fact"]) if case["fact"] is not None else None)
        check_data(datas, case["E"], len(datas[0]), cfg, acc, only_call=call, only_combo=None if case.get("stage") in ("in-place", "from_array(common=v)") else case.get("combo"))
    else:
        combo = [0] * len(datas)
        combo[case["dim"]] = case["to"]
        check_data(datas, case.get("E", 2), len(datas[0]), cfg, acc, only_call=("count", False, ("none",), None), only_combo=combo)
    for v in acc.violations:
        print("  %s :: %s" % (v["site"], v["detail"][:700]))
    return bool(acc.violations)
