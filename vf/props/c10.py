"""C10: INDX save then load is the identity."""
import numpy

from .. import indx

ID = "C10"
LEVEL = "exploration"


def describe(tier):
    maxn = 2 if tier == "quick" else 3
    return {
        "rule": "every entries dict with arity 1..4 and 0..%d entries whose coordinate tuples carry one alphabet value %r on one axis (all axis "
        "positions; ordered selections for <=2 entries, both orders of every 3-subset), every common value from the same alphabet, every "
        "assignment of row-id arrays from %r (3 entries: %r): saved with IndxIO.save and re-read with IndxIO.load. Non-trivial: at least one "
        "entry and the needed index word size differs between the coordinates and the common value, or an empty row-id array is present, "
        "or arity >= 3. Every seventh case is also saved in another legal representation (NumPy int64 / uint64 / narrowest-unsigned scalars for the common value and the coordinates; read-only, strided and reversed-view row-id arrays). What earlier loads returned must stay what it was while later files are loaded; a live iindex is saved, changed in place and saved again (every array of shape (3,) and (2,2) over three values x every common x every single change). Plus files whose entries have very different lengths: every ordered pair of lengths from %r and triples short/long/short, long/empty/short, short/long/long. "
        "Distinct = distinct (keys, arrays, common)." % (maxn, indx.ALPHA, indx.ROWIDS5, indx.ROWIDS3, indx.MIXED_LENGTHS),
        "bounds": {"arity": [1, 4], "entries": [0, maxn], "alphabet": [str(a) for a in indx.ALPHA]},
        "exhaustive": True,
        "assumptions": ["row-id arrays are limited to the five shapes listed (empty, singleton, small, max, min+max)", "files live on tmpfs (/dev/shm)"],
    }


def blocks(tier):
    return indx.family_blocks(tier) + [("mixed", {"i": i}) for i in range(len(indx.mixed_cases()))] + [("resave", {"shape": list(sh)}) for sh in ((3,), (2, 2))]


def check_resave(shape, acc, only=None):
    """The entries handed to save are a live iindex: saved, changed in place (update / shift_common / append), saved again - the second file
    must hold the changed index, and the first load's result (kept alive) must not have moved."""
    import itertools
    import os

    from catii.iindexes import iindex
    from catii.indxio import IndxIO

    from .. import models as M

    def roundtrip(idx, tag):
        global _RESAVE_SEQ
        _RESAVE_SEQ += 1
        path = os.path.join(indx.scratch_dir(), "rs-%d-%d.indx" % (os.getpid(), _RESAVE_SEQ))
        with open(path, "wb") as f:
            IndxIO.save(f, idx, idx.common, idx.rowid_dtype)
        with open(path, "rb") as f:
            ents, cm, dt = IndxIO.load(f)
        os.unlink(path)
        return iindex(ents, cm, tuple(idx.shape))

    for d in M.all_arrays(tuple(shape), range(3)):
        for common in (0, 1, 2):
            muts = [("shift_common", v) for v in (0, 1, 2, 3)] + [("update", cell, v) for cell in itertools.product(*[range(e) for e in shape]) for v in (0, 1, 2)] + [("append", v) for v in (0, 1)]
            for mut in muts:
                case = {"resave": list(shape), "array": d.tolist(), "common": common, "change": [mut[0]] + [list(x) if isinstance(x, tuple) else x for x in mut[1:]]}
                if only is not None and case != only:
                    continue
                try:
                    idx = M.build_index(d, common)
                    first = roundtrip(idx, "first")
                    exp = d.copy()
                    if mut[0] == "shift_common":
                        idx.shift_common(mut[1])
                    elif mut[0] == "update":
                        cell, v = mut[1], mut[2]
                        exp[cell] = v
                        idx.update({(v,) + tuple(cell[1:]): numpy.array([cell[0]], dtype=numpy.uint32)})
                    else:
                        o = numpy.full((1,) + tuple(shape[1:]), mut[1], dtype=numpy.int64)
                        exp = numpy.concatenate([d, o])
                        idx.append(M.build_index(o, 2))
                    second = roundtrip(idx, "second")
                    got2, got1 = M.read_dense(second).tolist(), M.read_dense(first).tolist()
                    # the changed index written over a LONGER file of an earlier save, from position 0 and without truncating (what is left
                    # of the old file behind the new payload is not part of the index: the size word says where it ends)
                    global _RESAVE_SEQ
                    _RESAVE_SEQ += 1
                    path = os.path.join(indx.scratch_dir(), "ro-%d-%d.indx" % (os.getpid(), _RESAVE_SEQ))
                    longer = M.build_index(numpy.concatenate([exp, exp, exp]) % 3 if exp.size else exp, 0)
                    with open(path, "w+b") as f:
                        IndxIO.save(f, longer, longer.common, longer.rowid_dtype)
                        f.write(b"\x01\x02\x03")            # and a few stray bytes
                        f.seek(0)
                        IndxIO.save(f, idx, idx.common, idx.rowid_dtype)
                    with open(path, "rb") as f:
                        ents, cm, dt = IndxIO.load(f)
                        over = iindex({k: numpy.array(v, copy=True) for k, v in ents.items()}, cm, tuple(idx.shape))
                    os.unlink(path)
                    if M.read_dense(over).tolist() != exp.tolist():
                        acc.violation("resave:over-longer-file", case, "saved over a longer file and loaded back: %r, expected %r" % (M.read_dense(over).tolist(), exp.tolist()))
                except Exception as e:  # noqa
                    acc.violation("resave:raised", case, repr(e))
                    continue
                if got2 != exp.tolist():
                    acc.violation("resave:second-file-differs", case, "the index saved after the change loads as %r, expected %r" % (got2, exp.tolist()))
                elif got1 != d.tolist():
                    acc.violation("resave:first-result-changed", case, "what the FIRST load returned now reads %r, expected %r" % (got1, d.tolist()))
                acc.case(("resave", tuple(shape), d.tobytes(), common, repr(mut)), nontrivial=True, outcome=("resave", mut[0]), sample=case)


_RESAVE_SEQ = 0


_EARLIER = []      # the last few raw results of IndxIO.load, kept alive on purpose
_NTH = 0


def check_case(keys, arrays, common, acc, case=None):
    from catii.iindexes import iindex

    case = case or {"keys": keys, "arrays": arrays, "common": common}
    try:
        blob = indx.lib_save(keys, arrays, common)
    except Exception as e:  # noqa
        acc.violation("save:raised", case, repr(e))
        return
    global _NTH
    _NTH += 1
    if _NTH % 5 == 0 and len(blob) > 17:
        # a load that fails (the same file cut short - C12 decides that it must fail) followed by the load of the complete file: whatever
        # the failed attempt left behind in the loader must not show
        for cut in (len(blob) - 1, 17):
            try:
                indx.lib_load_bytes(blob[:cut])
            except Exception:  # noqa
                pass
    try:
        out, common_l, dt, kinds, raw = indx.lib_load_bytes(blob)
    except Exception as e:  # noqa
        acc.violation("load:raised", case, repr(e))
        return
    msg = indx.check_loaded(out, common_l, kinds, keys, arrays, common)
    if msg:
        acc.violation("roundtrip:differs", case, msg)
        return
    # what earlier loads returned must still be what it was (a loader that hands out views of a buffer it re-uses would change it)
    for ecase, eraw, ekeys, earrays in _EARLIER:
        for k, a in zip(ekeys, earrays):
            got = numpy.asarray(eraw[tuple(k)]).tolist() if tuple(k) in eraw else None
            if got != list(a):
                acc.violation("roundtrip:earlier-result-changed", dict(case, earlier=ecase), "after this load the row ids an EARLIER load returned for %r read %r instead of %r" % (tuple(k), got, list(a)))
                _EARLIER.clear()
                return
    _EARLIER.append((case if len(str(case)) < 400 else {"summary": str(case)[:300]}, raw, [tuple(k) for k in keys], [list(a) for a in arrays]))
    if len(_EARLIER) > 4:
        _EARLIER.pop(0)
    if numpy.dtype(dt) != numpy.dtype(numpy.uint32):
        acc.violation("roundtrip:rowid-dtype", case, "reported row-id dtype %r" % (dt,))
    # the loaded parts rebuild an index equal to the saved one, and it validates if the saved one did
    arity = len(keys[0]) if keys else 1
    shape = (2 ** 32,) + (2 ** 63,) * (arity - 1)
    saved = iindex({tuple(k): numpy.array(a, dtype=numpy.uint32) for k, a in zip(keys, arrays)}, common, shape)
    try:
        loaded = iindex(dict(raw), common_l, shape)
    except Exception as e:  # noqa
        acc.violation("roundtrip:rebuild-raised", case, repr(e))
        return
    if not (loaded == saved) or not (saved == loaded):
        acc.violation("roundtrip:index-unequal", case, "iindex(*loaded) != saved index")
    # well-formedness decided by the harness itself (not by the library's validator, which is part of what is being checked)
    wf = all(k[0] != common for k in keys) and all(all(b > a2 for a2, b in zip(a, a[1:])) for a in arrays)
    if wf:
        cols = {}
        for k, a in zip(keys, arrays):
            cols.setdefault(tuple(k[1:]), []).append(set(a))
        wf = all(not (x & y) for sets in cols.values() for i, x in enumerate(sets) for y in sets[i + 1:])
    if wf:
        try:
            loaded.validate(True)
        except Exception as e:  # noqa
            acc.violation("roundtrip:loaded-invalid", case, "the rebuilt index is well-formed but validate(True) raised %r" % (e,))


REPR = ["np-int64", "np-uint64", "np-narrow", "read-only", "strided", "reversed-view"]


def check_repr(keys, arrays, common, kind, acc):
    """The same entries handed to IndxIO.save in another legal representation: NumPy integer scalars for the common value and the coordinates,
    read-only / non-contiguous row-id arrays. The loaded result must be the plain-Python content."""
    from catii.indxio import IndxIO
    import os

    case = {"keys": keys, "arrays": arrays, "common": common, "repr": kind}
    mx = max([common] + [c for k in keys for c in k])
    if kind == "np-int64":
        if mx >= 2 ** 63:
            return False
        conv = numpy.int64
    elif kind == "np-uint64":
        conv = numpy.uint64
    elif kind == "np-narrow":
        conv = next(t for t in (numpy.uint8, numpy.uint16, numpy.uint32, numpy.uint64) if mx <= numpy.iinfo(t).max)
    else:
        conv = int
    entries = {}
    for k, a in zip(keys, arrays):
        arr = numpy.array(a, dtype=numpy.uint32)
        if kind == "read-only":
            arr.flags.writeable = False
        elif kind == "strided":
            big = numpy.zeros(2 * len(a) + 1, dtype=numpy.uint32)
            big[::2][:len(a)] = a
            arr = big[::2][:len(a)]
        elif kind == "reversed-view":
            arr = numpy.array(a[::-1], dtype=numpy.uint32)[::-1]
        entries[tuple(conv(c) for c in k)] = arr
    path = os.path.join(indx.scratch_dir(), "r-%d.indx" % os.getpid())
    try:
        with open(path, "wb") as f:
            IndxIO.save(f, entries, conv(common), numpy.dtype(numpy.uint32))
        with open(path, "rb") as f:
            blob = f.read()
    except Exception as e:  # noqa
        acc.violation("save:raised", case, repr(e))
        return True
    try:
        out, common_l, dt, kinds, raw = indx.lib_load_bytes(blob)
    except Exception as e:  # noqa
        acc.violation("load:raised", case, repr(e))
        return True
    msg = indx.check_loaded(out, common_l, kinds, keys, arrays, common)
    if msg:
        acc.violation("roundtrip:differs", case, msg)
    return True


def nontrivial(keys, arrays, common):
    if not keys:
        return False
    wc = indx.narrowest(common)
    wk = indx.narrowest(max(c for k in keys for c in k))
    return wc != wk or any(len(a) == 0 for a in arrays) or len(keys[0]) >= 3


def run_block(family, p, acc):
    if family == "resave":
        check_resave(tuple(p["shape"]), acc)
        return
    if family == "mixed":
        lengths = indx.mixed_cases()[p["i"]]
        check_case(indx.mixed_keys(lengths), indx.mixed_arrays(lengths), 3, acc, case={"mixed_lengths": lengths})
        acc.case(("mixed", tuple(lengths)), nontrivial=True, outcome=("mixed", len(lengths)), sample={"entry_lengths": lengths})
        return
    for ci, (keys, arrays, common) in enumerate(indx.cases_of_block(p)):
        check_case(keys, arrays, common, acc)
        if ci % 7 == 0:
            kind = REPR[(ci // 7) % len(REPR)]
            if check_repr(keys, arrays, common, kind, acc):
                acc.count("representation_cases")
        acc.case((tuple(keys), tuple(map(tuple, arrays)), common), nontrivial=nontrivial(keys, arrays, common),
                 outcome=(len(keys), indx.narrowest(max([common] + [c for k in keys for c in k]))),
                 sample=lambda: {"keys": keys, "arrays": arrays, "common": common})


def replay(case, site=None):
    global _NTH
    _NTH = 4      # the replayed case is preceded by the failed loads of its own torn file, as every fifth case of a run is
    from ..core import Acc

    acc = Acc(ID, [], stop_at_first=False)
    if "resave" in case:
        check_resave(tuple(case["resave"]), acc, only=case)
    elif "repr" in case:
        check_repr([tuple(k) for k in case["keys"]], case["arrays"], case["common"], case["repr"], acc)
    elif "mixed_lengths" in case:
        lengths = case["mixed_lengths"]
        check_case(indx.mixed_keys(lengths), indx.mixed_arrays(lengths), 3, acc, case=case)
    else:
        e = case.get("earlier") or {}
        if "keys" in e:
            check_case([tuple(k) for k in e["keys"]], e["arrays"], e["common"], acc)
        check_case([tuple(k) for k in case["keys"]], case["arrays"], case["common"], acc)
    for v in acc.violations:
        print("  %s :: %s" % (v["site"], v["detail"]))
    return bool(acc.violations)
