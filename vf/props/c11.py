"""C11: INDX files are byte-for-byte the documented layout (independent encoder/decoder)."""
import os
import struct

import numpy

from .. import indx

ID = "C11"
LEVEL = "exploration"

BIG_SINGLE = [2 ** 30 - 16, 2 ** 30 - 1, 2 ** 30, 2 ** 31, 2 ** 32 - 1]
BIG_MULTI = [[2 ** 31, 2 ** 31], [2 ** 32 - 1, 6], [2 ** 30, 2 ** 30, 2 ** 30, 2 ** 30, 5], [1, 2 ** 30 - 1, 0, 7]]


def describe(tier):
    return {
        "rule": "for every C10 input: bytes written by IndxIO.save == bytes of an independent encoder written from the class docstring; the "
        "independent decoder recovers the input from the saved bytes; IndxIO.load recovers the input from independently encoded bytes for every "
        "index word size {1,2,4,8} >= needed and every row-id word size {1,2,4,8} the values permit (and both header conventions for the "
        "dimension byte of an entry-less file). Saving with a 1-/2-/8-byte row-id dtype (entry lengths around 255/256 and 65535/65536): the library may refuse, but a file it writes must decode to the input. Narrow row-id words: independently encoded files with 1- and 2-byte row-id words whose total row-id count exceeds 255 / 65535 (%r). Every fifth case is also saved with its coordinates and common value as NumPy integer scalars (uint8 .. uint64, int32, int64) and must give the same bytes. Entries of very different lengths in one file (every ordered pair of lengths from %r, and short/long/short, long/empty/short, short/long/long triples). Size field: sparse stand-in arrays (len/dtype/tofile=seek) with row-id totals %r and %r: the 8-byte "
        "size word must equal final file position - 16 and save must not raise. Non-trivial as in C10, or an alternative word size was loaded." % (NARROW, indx.MIXED_LENGTHS, BIG_SINGLE, BIG_MULTI),
        "bounds": {"row_id_totals": [str(x) for x in BIG_SINGLE] + [str(sum(x)) for x in BIG_MULTI]},
        "exhaustive": True,
        "assumptions": ["the class docstring of IndxIO is the format specification", "for totals >= 2^30 only the size arithmetic is exercised (no row-id data is materialised)"],
    }


NARROW = [(1, [200, 100]), (1, [255, 1]), (1, [128, 128]), (1, [100, 100, 100]), (1, [0, 255, 3]), (2, [40000, 30000]), (2, [65535, 1]), (2, [32768, 32768, 5])]


NARROW_SAVE = [(1, [3, 0, 5]), (1, [255]), (1, [256]), (1, [255, 255]), (1, [256, 1]), (2, [65535]), (2, [65536]), (2, [300, 65536, 2]), (8, [3, 0, 5])]


def blocks(tier):
    return indx.family_blocks(tier) + [("mixed", {"i": i}) for i in range(len(indx.mixed_cases()))] + [("bigsize", {"tier": tier})] + [("narrow", {"tier": tier, "i": i}) for i in range(len(NARROW))] + [("narrow-save", {"tier": tier, "i": i}) for i in range(len(NARROW_SAVE))]


def check_narrow_save(rw, lengths, acc):
    """IndxIO.save with a 1-, 2- or 8-byte row-id dtype. The library may refuse (an entry longer than the word can count), but a
    file it does write must be the documented layout of the input."""
    from catii.indxio import IndxIO

    dt = {1: numpy.uint8, 2: numpy.uint16, 8: numpy.uint64}[rw]
    keys = [(i + 1, 0) for i in range(len(lengths))]
    arrays = [[j % (1 << (8 * min(rw, 4))) for j in range(n)] for n in lengths]
    case = {"save_rowid_word": rw, "lengths": lengths}
    entries = {k: numpy.array(a, dtype=dt) for k, a in zip(keys, arrays)}
    path = os.path.join(indx.scratch_dir(), "ns-%d.indx" % os.getpid())
    try:
        with open(path, "wb") as f:
            IndxIO.save(f, entries, 0, numpy.dtype(dt))
    except Exception:
        return "refused"
    blob = open(path, "rb").read()
    try:
        dk, da, dc, iw, rw2, size = indx.decode(blob)
    except Exception as e:  # noqa
        acc.violation("bytes:undecodable", case, "save returned normally but the file is not the documented layout: %r" % (e,))
        return "written"
    if (dk, da, dc, rw2) != (keys, arrays, 0, rw):
        acc.violation("bytes:decode-differs", case, "save returned normally but the file decodes to lengths %r (row-id word %d)" % ([len(a) for a in da], rw2))
    return "written"


def check_narrow(rw, lengths, acc):
    """Independently encoded file whose row-id words are 1 or 2 bytes wide and whose row-id COUNT in total exceeds what one such word holds."""
    keys = [(i + 1, 0) for i in range(len(lengths))]
    arrays = [list(range(n)) for n in lengths]
    case = {"rowid_word": rw, "lengths": lengths}
    blob = indx.encode(keys, arrays, 0, rowid_word=rw)
    try:
        out, common_l, dt, kinds, raw = indx.lib_load_bytes(blob)
    except Exception as e:  # noqa
        acc.violation("load-independent:raised", case, repr(e))
        return
    msg = indx.check_loaded(out, common_l, kinds, keys, arrays, 0)
    if msg:
        acc.violation("load-independent:differs", case, msg)


def check_case(keys, arrays, common, acc, case=None, alt_words=True):
    short = case is not None
    case = case or {"keys": keys, "arrays": arrays, "common": common}
    try:
        blob = indx.lib_save(keys, arrays, common)
    except Exception as e:  # noqa
        acc.violation("save:raised", case, repr(e))
        return 0
    mine = indx.encode(keys, arrays, common)
    if blob != mine:
        if short:
            d = next((i for i in range(min(len(blob), len(mine))) if blob[i] != mine[i]), min(len(blob), len(mine)))
            acc.violation("bytes:differ", case, "library file (%d bytes) != documented layout (%d bytes), first difference at byte %d: %s vs %s" % (len(blob), len(mine), d, blob[d:d + 16].hex(), mine[d:d + 16].hex()))
        else:
            acc.violation("bytes:differ", case, "library %s != documented layout %s" % (blob.hex(), mine.hex()))
        return 0
    try:
        dk, da, dc, iw, rw, size = indx.decode(blob)
    except Exception as e:  # noqa
        acc.violation("bytes:undecodable", case, repr(e))
        return 0
    if (dk, da, dc) != ([tuple(k) for k in keys], [list(a) for a in arrays], common) and keys:
        acc.violation("bytes:decode-differs", case, ("independent decoder got %r" % ((dk, da, dc),))[:600])
    if not keys and (da, dc) != ([], common):
        acc.violation("bytes:decode-differs", case, "independent decoder got %r" % ((dk, da, dc),))
    # loader on independently encoded bytes, all admissible word sizes
    need_i = indx.narrowest(max([common] + [c for k in keys for c in k]))
    mr = max([0] + [r for a in arrays for r in a] + [len(a) for a in arrays])
    need_r = indx.narrowest(mr)
    n_alt = 0
    for iw in (1, 2, 4, 8):
        if iw < need_i or (not alt_words and iw not in (need_i, 8)):
            continue
        for rw in (1, 2, 4, 8):
            if rw < need_r or (not alt_words and rw not in (need_r, 8)):
                continue
            for dims in ((None,) if keys else (0, 1, 3)):
                b2 = indx.encode(keys, arrays, common, index_word=iw, rowid_word=rw, dims=dims)
                c2 = dict(case, index_word=iw, rowid_word=rw, dims=dims)
                try:
                    out, common_l, dt, kinds, raw = indx.lib_load_bytes(b2)
                except Exception as e:  # noqa
                    acc.violation("load-independent:raised", c2, repr(e))
                    continue
                msg = indx.check_loaded(out, common_l, kinds, keys, arrays, common)
                if msg:
                    acc.violation("load-independent:differs", c2, msg[:600])
                n_alt += 1
    return n_alt


def check_scalar_keys(keys, arrays, common, conv_name, acc):
    """The same entries with the coordinates and the common value as NumPy integer scalars of a given type (what numpy.unique over a uint16 /
    uint32 / int64 column hands out): the file must still be byte-for-byte the documented layout with the NARROWEST words."""
    from catii.indxio import IndxIO

    conv = getattr(numpy, conv_name)
    mx = max([common] + [c for k in keys for c in k])
    if mx > numpy.iinfo(conv).max:
        return False
    case = {"keys": keys, "arrays": arrays, "common": common, "scalar_type": conv_name}
    def rowids(a):
        # half of the scalar types also get their row ids as non-contiguous views (a column of a table, every other element of a buffer)
        if conv_name in ("uint16", "uint64", "int32") and len(a) >= 1:
            big = numpy.zeros(2 * len(a) + 1, dtype=numpy.uint32)
            big[::2][:len(a)] = a
            return big[::2][:len(a)]
        return numpy.array(a, dtype=numpy.uint32)

    entries = {tuple(conv(c) for c in k): rowids(a) for k, a in zip(keys, arrays)}
    path = os.path.join(indx.scratch_dir(), "sk-%d.indx" % os.getpid())
    try:
        with open(path, "wb") as f:
            IndxIO.save(f, entries, conv(common), numpy.dtype(numpy.uint32))
        blob = open(path, "rb").read()
    except Exception as e:  # noqa
        acc.violation("save:raised", case, repr(e))
        return True
    mine = indx.encode(keys, arrays, common)
    if blob != mine:
        acc.violation("bytes:differ", case, "library %s != documented layout %s" % (blob.hex()[:400], mine.hex()[:400]))
    return True


def check_byteorder(keys, arrays, common, acc):
    """Row-id arrays that hold the right numbers in the OTHER byte order (data read from a big-endian source): a writer may refuse them, but a
    file it writes must be the documented little-endian layout."""
    from catii.indxio import IndxIO

    if not any(len(a) for a in arrays):
        return False
    case = {"keys": keys, "arrays": arrays, "common": common, "rowid_byteorder": "big-endian"}
    entries = {tuple(k): numpy.array(a, dtype=">u4") for k, a in zip(keys, arrays)}
    path = os.path.join(indx.scratch_dir(), "bo-%d.indx" % os.getpid())
    try:
        with open(path, "wb") as f:
            IndxIO.save(f, entries, common, numpy.dtype(numpy.uint32))
        blob = open(path, "rb").read()
    except Exception:  # noqa
        acc.count("byteorder_refused")
        return True
    mine = indx.encode(keys, arrays, common)
    if blob != mine:
        acc.violation("bytes:differ", case, "library %s != documented layout %s" % (blob.hex()[:400], mine.hex()[:400]))
    return True


SCALAR_TYPES = ["uint8", "uint16", "uint32", "uint64", "int64", "int32"]


class Sparse:
    """Stand-in for a huge uint32 row-id array: has a length and a dtype, writes by seeking."""

    dtype = numpy.dtype(numpy.uint32)

    def __init__(self, n):
        self.n = n

    def __len__(self):
        return self.n

    def tofile(self, f):
        f.seek(self.n * 4, 1)


def check_big(lengths, acc):
    from catii.indxio import IndxIO

    case = {"lengths": [str(x) for x in lengths]}
    entries = {(i + 1,): Sparse(n) for i, n in enumerate(lengths)}
    path = os.path.join(indx.scratch_dir(), "big-%d.indx" % os.getpid())
    try:
        with open(path, "wb") as f:
            try:
                IndxIO.save(f, entries, 0, numpy.dtype(numpy.uint32))
            except (TypeError, AttributeError, BufferError) as e:
                if "Sparse" in repr(e) or "bytes-like" in repr(e) or "buffer" in repr(e).lower():
                    # the writer no longer hands its row ids over through ndarray.tofile(): the stand-in (len / dtype / tofile only) cannot
                    # play an array for it. That says nothing about the size word: counted, not reported.
                    acc.count("bigsize_stand_in_not_accepted", 1)
                    return
                acc.violation("size:save-raised", case, repr(e))
                return
            except Exception as e:  # noqa
                acc.violation("size:save-raised", case, repr(e))
                return
            end = f.tell()
        with open(path, "rb") as f:
            head = f.read(16)
        (size,) = struct.unpack("<Q", head[8:16])
        want = 1 + 4 + 1 + 1 + len(lengths) * 1 + 1 + 4 * len(lengths) + 4 * sum(lengths)
        if size != end - 16:
            acc.violation("size:field-vs-position", case, "size field %d, final position - 16 = %d" % (size, end - 16))
        elif size != want:
            acc.violation("size:field-vs-documented", case, "size field %d, documented payload %d" % (size, want))
    finally:
        try:
            os.remove(path)
        except OSError:
            pass


def run_block(family, p, acc):
    if family == "narrow-save":
        rw, lengths = NARROW_SAVE[p["i"]]
        r = check_narrow_save(rw, lengths, acc)
        acc.case(("narrow-save", rw, tuple(lengths)), nontrivial=True, outcome=("narrow-save", r), sample={"save_with_rowid_word": rw, "row_id_lengths": lengths, "library": r})
        return
    if family == "narrow":
        rw, lengths = NARROW[p["i"]]
        check_narrow(rw, lengths, acc)
        acc.case(("narrow", rw, tuple(lengths)), nontrivial=True, outcome=("narrow", rw), sample={"rowid_word": rw, "row_id_lengths": lengths})
        return
    if family == "mixed":
        lengths = indx.mixed_cases()[p["i"]]
        n_alt = check_case(indx.mixed_keys(lengths), indx.mixed_arrays(lengths), 3, acc, case={"mixed_lengths": lengths}, alt_words=False)
        acc.count("independent_files_loaded", n_alt)
        acc.case(("mixed", tuple(lengths)), nontrivial=True, outcome=("mixed", len(lengths)), sample={"entry_lengths": lengths})
        return
    if family == "bigsize":
        for n in BIG_SINGLE:
            check_big([n], acc)
            acc.case(("big", n), nontrivial=True, outcome=("big", n >= 2 ** 30), sample={"row_id_lengths": [str(n)]})
        for l in BIG_MULTI:
            check_big(l, acc)
            acc.case(("big", tuple(l)), nontrivial=True, outcome=("bigm", sum(l) >= 2 ** 32), sample={"row_id_lengths": [str(x) for x in l]})
        return
    from .c10 import nontrivial

    for ci, (keys, arrays, common) in enumerate(indx.cases_of_block(p)):
        if ci % 5 == 0 and check_scalar_keys(keys, arrays, common, SCALAR_TYPES[(ci // 5) % len(SCALAR_TYPES)], acc):
            acc.count("scalar_key_files")
        if ci % 7 == 3 and check_byteorder(keys, arrays, common, acc):
            acc.count("byteorder_files")
        n_alt = check_case(keys, arrays, common, acc)
        acc.count("independent_files_loaded", n_alt)
        acc.case((tuple(keys), tuple(map(tuple, arrays)), common), nontrivial=nontrivial(keys, arrays, common) or n_alt > 1,
                 outcome=(len(keys), n_alt), sample=lambda: {"keys": keys, "arrays": arrays, "common": common, "hex": indx.encode(keys, arrays, common).hex()})


def replay(case, site=None):
    from ..core import Acc

    acc = Acc(ID, [], stop_at_first=False)
    if "rowid_byteorder" in case:
        check_byteorder([tuple(k) for k in case["keys"]], case["arrays"], case["common"], acc)
    elif "scalar_type" in case:
        check_scalar_keys([tuple(k) for k in case["keys"]], case["arrays"], case["common"], case["scalar_type"], acc)
    elif "mixed_lengths" in case:
        lengths = case["mixed_lengths"]
        check_case(indx.mixed_keys(lengths), indx.mixed_arrays(lengths), 3, acc, case={"mixed_lengths": lengths}, alt_words=False)
    elif "save_rowid_word" in case:
        check_narrow_save(case["save_rowid_word"], case["lengths"], acc)
    elif "rowid_word" in case and "lengths" in case:
        check_narrow(case["rowid_word"], case["lengths"], acc)
    elif "lengths" in case:
        check_big([int(x) for x in case["lengths"]], acc)
    else:
        check_case([tuple(k) for k in case["keys"]], case["arrays"], case["common"], acc)
    for v in acc.violations:
        print("  %s :: %s" % (v["site"], v["detail"][:400]))
    return bool(acc.violations)
