"""C18: array-cube-only statistics (stddev, quantile, min, max, covariance, corrcoef) equal the
per-cell textbook statistic computed in plain Python over the rows of each cell."""
import itertools
import math

import numpy

from .. import cubes as Q
from .. import models as M
from ..core import jsonable as _js

ID = "C18"
LEVEL = "exploration"

NaN = float("nan")
# distinct values per row, different order per column (so order statistics are unambiguous and covariances non-trivial)
COLS = [
    [1.0, 2.0, 4.0, 7.0, 11.0],
    [7.0, 1.0, 11.0, 2.0, 4.0],
    [2.0, 11.0, 1.0, 4.0, 7.0],
]
CONST = 3.0
# large offset, small spread (exactly representable): a one-pass variance formula cancels catastrophically here
BIG = [1e8 + 0.25, 1e8 + 0.5, 1e8 + 1.0, 1e8 + 2.0, 1e8 + 4.0]
DEC_CONST = 0.1  # constant non-dyadic column: variance must come out as ~0, not as a negative rounding residue
PROBS = [0.0, 0.1, 0.25, 0.5, 0.75, 0.9, 1.0]

# (D, Ns, wl: weight level, fl: pattern level)
SETS = {
    "quick": [dict(D=0, Ns=[0, 1, 2, 3], wl=1, fl=1), dict(D=1, Ns=[1, 2, 3], wl=1, fl=1), dict(D=1, Ns=[4], wl=0, fl=0), dict(D=2, Ns=[2], wl=1, fl=0), dict(D=2, Ns=[3], wl=0, fl=0)],
    "thorough": [dict(D=0, Ns=[0, 1, 2, 3, 4, 5], wl=2, fl=2), dict(D=1, Ns=[1, 2, 3, 4], wl=2, fl=2), dict(D=1, Ns=[5], wl=1, fl=1), dict(D=2, Ns=[2, 3], wl=2, fl=1), dict(D=2, Ns=[4], wl=1, fl=0)],
}
E = 2


def describe(tier):
    return {
        "rule": "array cubes with D in {0,1,2} dimensions, EVERY data vector over {0,1} (explicit extent 3), rows N as listed; facts with distinct values per row "
        "(three column orders) or a constant column, missing patterns (all 2^N for one column; structured for several), representations NaN-marked / (float,validity) / "
        "(int64,validity) / (datetime64,validity) / a single datetime64 array with NaT; dimension arrays int64, plus int8/int16/uint8 dimensions on cubes of 200 / 40000 cells (min, max, stddev, sparse comparison); weights none / arrays over {positive, missing}^N with row-specific weights 0.5,1,2,4 / (values,validity) / scalar "
        "(quantile only); both policies; NaN and (0,False) formats. Oracles from the rows of each cell: stddev (ddof=1; weighted = reliability variance x n/(n-1); "
        "missing also for < 2 valid rows); unweighted quantile by linear interpolation at p in %r; weighted quantile: missing rule, invariance under w -> 3w, "
        "result within [min,max] of the valid values; min/max; covariance (aweights normalisation; complete rows when ignoring, per column pair otherwise); "
        "unweighted correlation (entries with a zero-variance column or < 2 rows not compared). stddev also on a large-offset/small-spread column (1e8 + {0.25..4}) and a constant 0.1 column, against an exact rational oracle (relative tolerance 1e-6); weighted quantile also with one zero weight / a (0-filled, validity) weight, where only the missing rule is claimed. Non-trivial: some cell has >= 2 valid rows and some cell is missing. "
        "Distinct = distinct (data, statistic, call)." % (PROBS,),
        "bounds": {"sets": SETS[tier], "E": E},
        "exhaustive": True,
        "assumptions": [
            "stddev and covariance are given array or (values, validity) weights only (their documented forms); zero weights are outside the alphabet for stddev/quantile/covariance (division by the weight sum)",
            "covariance/correlation entries of cells with fewer than two usable rows are mathematically undefined and not compared",
        ],
    }


# ----------------------------------------------------------------------------- argument realisation

def fact_arg(N, cols, pattern, form):
    """cols: list of column ids (0..2 or 'c' for constant); [] -> handled by caller (1-D uses one col, flat shape).
    pattern: tuple of N*len(cols) bools (True = missing). Returns (arg, x[N][K], valid[N][K])."""
    K = len(cols)
    def val(c, r):
        if c == "c":
            return CONST
        if c == "d":
            return DEC_CONST
        if c == "b":
            return BIG[r]
        return COLS[c][r]

    x = [[val(c, r) for c in cols] for r in range(N)]
    miss = [[bool(pattern[r * K + k]) for k in range(K)] for r in range(N)]
    valid = [[not m for m in row] for row in miss]
    vals = numpy.array(x, dtype=float).reshape((N, K))
    va = numpy.array(valid, dtype=bool).reshape((N, K))
    if form == "nan":
        vals = vals.copy()
        vals[~va] = NaN
        arg = vals
    elif form == "pair-huge":
        vals = vals.copy()
        vals[~va] = 1e300
        arg = (vals, va)
    elif form == "pair-nan":
        vals = vals.copy()
        vals[~va] = NaN
        arg = (vals, va)
    elif form == "int":
        iv = vals.astype(numpy.int64)
        iv[~va] = -999
        arg = (iv, va)
    elif form in ("uint8", "uint16", "uint64", "int16", "int32"):
        # other integer dtypes: a (values, validity) pair hiding the type's largest value under False validity, or - when nothing is
        # missing - the bare array
        iv = vals.astype(form)
        iv[~va] = numpy.iinfo(form).max
        arg = (iv, va) if (~va).any() else iv
    elif form == "float32":
        vals = vals.astype(numpy.float32)
        vals[~va] = NaN
        arg = vals
    elif form in ("datetime", "datetime-nat"):
        dv = (numpy.array("2020-01-01", dtype="datetime64[D]") + vals.astype(numpy.int64)).astype("datetime64[D]")
        dv[~va] = numpy.datetime64("NaT")
        arg = (dv, va) if form == "datetime" else dv   # "datetime-nat": a single array whose missing values are NaT
    else:
        raise KeyError(form)
    return arg, x, valid


def flat1(arg):
    """Turn an (N,1) argument into the 1-D form."""
    if isinstance(arg, tuple):
        return (arg[0].reshape(-1), arg[1].reshape(-1))
    return arg.reshape(-1)


def patterns(N, K, level):
    if K == 1:
        return list(itertools.product((False, True), repeat=N))
    if level >= 2 and N * K <= 8:
        return list(itertools.product((False, True), repeat=N * K))
    out, seen = [], set()
    base = list(itertools.product((False, True), repeat=N)) if level >= 1 else [tuple([False] * N)] + [tuple(i == j for i in range(N)) for j in range(N)] + [tuple([True] * N)]
    for p0 in base:
        for p1 in (tuple([False] * N), tuple(not b for b in p0), p0):
            cols = [p0, p1] + [tuple([False] * N)] * (K - 2)
            pat = tuple(cols[k][r] for r in range(N) for k in range(K))
            if pat not in seen:
                seen.add(pat); out.append(pat)
    return out


def wspecs(N, level, scalar=False):
    out = [("none",)]
    if scalar:
        out += [("scalar", 2.0), ("scalar", NaN)]
    if N == 0:
        return out + [("array", (), "nan")]
    if level >= 2:
        arrs = list(itertools.product("PM", repeat=N))
    elif level >= 1:
        arrs = [tuple("P" * N)] + [tuple("M" if i == j else "P" for i in range(N)) for j in range(N)] + [tuple("M" * N)]
    else:
        arrs = [tuple("P" * N), tuple("M" if i == 0 else "P" for i in range(N))]
    out += [("array", a, "nan") for a in arrs]
    if level >= 1:
        out += [("array", arrs[1 % len(arrs)], "pair-huge")]
    return out


# ----------------------------------------------------------------------------- oracles (per cell / column)

def usable(rows, valid, k, wok):
    return [r for r in rows if valid[r][k] and (wok is None or wok[r])]


def rule_missing(rows, good, ignore):
    if not rows:
        return True
    return (len(good) == 0) if ignore else (len(good) < len(rows))


def o_stddev(rows, x, valid, k, w, wok, ignore):
    """Exact rational arithmetic (the float inputs are exact rationals), so the oracle itself has no rounding error."""
    from fractions import Fraction as Fr

    good = usable(rows, valid, k, wok)
    m = rule_missing(rows, good, ignore) or len(good) < 2
    if m:
        return None
    n = len(good)
    xs = [Fr(x[r][k]) for r in good]
    if w is None:
        mean = sum(xs) / n
        var = sum((v - mean) ** 2 for v in xs) / (n - 1)
    else:
        ws = [Fr(w[r]) for r in good]
        sw = sum(ws)
        mean = sum(a * b for a, b in zip(ws, xs)) / sw
        var = sum(a * (v - mean) ** 2 for a, v in zip(ws, xs)) / sw * Fr(n, n - 1)
    return math.sqrt(float(var))


def o_quantile(rows, x, valid, k, ignore, p):
    good = usable(rows, valid, k, None)
    if rule_missing(rows, good, ignore):
        return None
    v = sorted(x[r][k] for r in good)
    h = p * (len(v) - 1)
    lo = int(math.floor(h))
    hi = min(lo + 1, len(v) - 1)
    return v[lo] + (h - lo) * (v[hi] - v[lo])


def o_minmax(rows, x, valid, ignore, op):
    good = usable(rows, valid, 0, None)
    if rule_missing(rows, good, ignore):
        return None
    return op(x[r][0] for r in good)


def o_cov_entry(rows, x, valid, i, j, w, wok, ignore, K):
    """Returns ('missing',) | ('skip',) | ('value', v)."""
    if not rows:
        return ("missing",)
    if ignore:
        good = [r for r in rows if all(valid[r][k] for k in range(K)) and (wok is None or wok[r])]
        if not good:
            return ("missing",)
    else:
        bad = [r for r in rows if not (valid[r][i] and valid[r][j]) or (wok is not None and not wok[r])]
        if bad:
            return ("missing",)
        good = list(rows)
    if len(good) < 2:
        return ("skip",)
    if w is None:
        n = len(good)
        mi = sum(x[r][i] for r in good) / n
        mj = sum(x[r][j] for r in good) / n
        return ("value", sum((x[r][i] - mi) * (x[r][j] - mj) for r in good) / (n - 1))
    v1 = sum(w[r] for r in good)
    v2 = sum(w[r] ** 2 for r in good)
    mi = sum(w[r] * x[r][i] for r in good) / v1
    mj = sum(w[r] * x[r][j] for r in good) / v1
    fact = v1 - v2 / v1
    if fact <= 1e-12:
        return ("skip",)
    return ("value", sum(w[r] * (x[r][i] - mi) * (x[r][j] - mj) for r in good) / fact)


def o_corr_entry(rows, x, valid, i, j, ignore, K):
    c = o_cov_entry(rows, x, valid, i, j, None, None, ignore, K)
    if c[0] != "value":
        return c
    ci = o_cov_entry(rows, x, valid, i, i, None, None, ignore, K)
    cj = o_cov_entry(rows, x, valid, j, j, None, None, ignore, K)
    if ci[0] != "value" or cj[0] != "value":
        # the diagonal pair may be 'missing' under propagation only if i/j themselves have missing rows, which makes c missing too
        return ("skip",)
    if ci[1] <= 1e-12 or cj[1] <= 1e-12:
        return ("skip",)
    return ("value", c[1] / math.sqrt(ci[1] * cj[1]))


# ----------------------------------------------------------------------------- checking one data vector set

def close(a, b):
    return abs(a - b) <= 1e-9 * max(1.0, abs(a), abs(b))


def get_both(cube_thunk, method, args, kwargs):
    """Run with NaN format and pair format. Returns (values, missing) from the pair format after checking the NaN format describes the same."""
    r1 = getattr(cube_thunk(), method)(*args(), **dict(kwargs, return_missing_as=NaN))
    r2 = getattr(cube_thunk(), method)(*args(), **dict(kwargs, return_missing_as=(0, False)))
    v1 = numpy.asarray(r1)
    v2, ok2 = numpy.asarray(r2[0]), numpy.asarray(r2[1]).astype(bool)
    m1 = numpy.isnan(v1.astype(float)) if v1.dtype.kind != "M" else numpy.isnat(v1)
    fmt_msg = None
    if v1.shape != v2.shape or not numpy.array_equal(m1, ~ok2):
        fmt_msg = "NaN format missing %r vs pair format missing %r" % (m1.astype(int).tolist(), (~ok2).astype(int).tolist())
    elif ok2.any():
        a, b = v1[ok2].astype(float), v2[ok2].astype(float)
        if not numpy.all(numpy.abs(a - b) <= 1e-9 * numpy.maximum(1.0, numpy.abs(a))):
            fmt_msg = "NaN format values %r vs pair format values %r" % (v1.tolist(), v2.tolist())
    return v2, ~ok2, fmt_msg


def check_data(datas, N, cfg, acc, only=None):
    from catii.xcubes import xcube

    D = len(datas)
    denses = [numpy.array(t, dtype=numpy.int64) for t in datas]
    shape = (E + 1,) * D
    cells = M.cell_rows(denses, shape, N) if D else {(): list(range(N))}
    coords_list = list(itertools.product(*[range(s) for s in shape]))
    mk = lambda: xcube(denses, interacting_shape=shape)  # noqa
    base = {"data": [list(t) for t in datas], "N": N}
    wl, fl = cfg["wl"], cfg["fl"]

    def cellidx(res, coords, extra=()):
        a = numpy.asarray(res)
        if D == 0:
            # zero dimensions: a 1-D fact gives shape (1,), a (N,K) fact gives (K,), matrices (K,K)
            return a[extra] if extra else a.reshape(-1)[0]
        return a[coords + extra]

    def report(stat, call, msg):
        acc.violation("xcube:%s" % stat, dict(base, stat=stat, call=call), msg)

    def record(stat, call, any_missing, any_multi):
        acc.case((tuple(datas), stat, repr(call)), nontrivial=any_missing and any_multi, outcome=(stat, any_missing, any_multi), sample=lambda: dict(base, stat=stat, call=call))

    multi = any(len(r) >= 2 for r in cells.values())

    def want(stat):
        return only is None or only["stat"] == stat

    # ---------------- stddev
    if want("stddev"):
        for cols in ([0], [0, 1], [0, "c"], ["b"], ["d", "b"]):
            K = len(cols)
            plist = patterns(N, K, fl if cols[0] not in ("b", "d") else min(fl, 1))
            for pi, pat in enumerate(plist):
                for form in (["nan", "pair-huge"] if (pi == min(1, len(plist) - 1) or fl >= 2) else ["nan"]):
                    for ws in wspecs(N, wl):
                        for ignore in (False, True):
                            for oned in ([True, False] if K == 1 else [False]):
                                call = {"cols": cols, "pattern": pat, "form": form, "weights": ws, "ignore": ignore, "oned": oned}
                                if only is not None and _js(call) != only["call"]:
                                    continue
                                _, x, valid = fact_arg(N, cols, pat, form)
                                _, w, wok = Q.make_weights(N, ws)

                                def args():
                                    a, _, _ = fact_arg(N, cols, pat, form)
                                    wa, _, _ = Q.make_weights(N, ws)
                                    return (flat1(a) if oned else a, wa, ignore)

                                try:
                                    v, m, fmsg = get_both(mk, "stddev", args, {})
                                except Exception as e:  # noqa
                                    report("stddev", call, "raised %r" % (e,))
                                    continue
                                acc.count("evals", 2)
                                if fmsg:
                                    report("stddev", call, fmsg)
                                anym = False
                                for coords in coords_list:
                                    for k in range(K):
                                        exp = o_stddev(cells.get(coords, []), x, valid, k, w, wok, ignore)
                                        ex = () if oned else (k,)
                                        gm = bool(cellidx(m, coords, ex))
                                        if exp is None:
                                            anym = True
                                            if not gm:
                                                report("stddev", call, "cell %r col %d should be missing, got %r" % (coords, k, float(cellidx(v, coords, ex))))
                                        elif gm:
                                            report("stddev", call, "cell %r col %d reported missing, expected %r" % (coords, k, exp))
                                        elif not (abs(float(cellidx(v, coords, ex)) - exp) <= 1e-6 * abs(exp) + 1e-9):
                                            report("stddev", call, "cell %r col %d = %r, expected %r" % (coords, k, float(cellidx(v, coords, ex)), exp))
                                record("stddev", call, anym, multi)

    # ---------------- one set of fact arrays handed to successive statistics (an application computes several statistics of one column):
    # weighted stddev (a row with a missing weight), stddev under a (values, validity) weight, plain stddev, then quantile / min / max /
    # covariance of the SAME argument objects; each answer must equal the answer for freshly built arguments
    if (only is None or only["stat"] in ("shared-args", "stddev")) and N >= 1:
        def same(a, b):
            if isinstance(a, tuple) or isinstance(b, tuple):
                return isinstance(a, tuple) and isinstance(b, tuple) and len(a) == len(b) and all(same(p_, q_) for p_, q_ in zip(a, b))
            a, b = numpy.asarray(a), numpy.asarray(b)
            return a.shape == b.shape and a.dtype == b.dtype and numpy.array_equal(a, b, equal_nan=a.dtype.kind in "fc")

        wsl = wspecs(N, 1)
        seq_w = [w_ for w_ in wsl if w_[0] == "array" and "M" in w_[1]][:2] + [w_ for w_ in wsl if w_[0] == "array" and w_[2] == "pair-huge"][:1] + [("none",)]
        for cols in ([0], [0, 1], ["d", "b"]):
            K = len(cols)
            plist = patterns(N, K, min(fl, 1))
            for pat in plist[:3]:
                for form in ("nan", "pair-huge"):
                    for ignore in (False, True):
                        for oned in ([True, False] if K == 1 else [False]):
                            call = {"cols": cols, "pattern": pat, "form": form, "ignore": ignore, "oned": oned, "shared": True}
                            if only is not None and _js(call) != only["call"]:
                                continue
                            a0, _, _ = fact_arg(N, cols, pat, form)
                            shared = flat1(a0) if oned else a0

                            def fresh():
                                a, _, _ = fact_arg(N, cols, pat, form)
                                return flat1(a) if oned else a

                            steps = [("stddev", ws) for ws in seq_w] + [("quantile", None), ("min", None), ("max", None)] + ([("covariance", None)] if K >= 2 else [])
                            for stat, ws in steps:
                                def one(arg):
                                    if stat == "stddev":
                                        return mk().stddev(arg, Q.make_weights(N, ws)[0], ignore)
                                    if stat == "quantile":
                                        return mk().quantile(arg, 0.5, None, ignore)
                                    if stat == "covariance":
                                        return mk().covariance(arg, None, ignore)
                                    return getattr(mk(), stat)(arg, ignore)

                                try:
                                    ref = one(fresh())
                                except Exception:  # noqa
                                    continue    # this statistic does not take this kind of fact (the per-statistic passes decide that)
                                try:
                                    outs = [one(shared), ref]
                                    for arg in ():
                                        if stat == "stddev":
                                            outs.append(mk().stddev(arg, Q.make_weights(N, ws)[0], ignore))
                                        elif stat == "quantile":
                                            outs.append(mk().quantile(arg, 0.5, None, ignore))
                                        elif stat == "covariance":
                                            outs.append(mk().covariance(arg, None, ignore))
                                        else:
                                            outs.append(getattr(mk(), stat)(arg, ignore))
                                    acc.count("evals", 2)
                                    if not same(outs[0], outs[1]):
                                        report("shared-args", call, "%s%s of arguments that earlier statistics have seen = %r, of fresh arguments = %r" % (
                                            stat, "" if ws is None else " (weights %r)" % (ws,), numpy.asarray(outs[0]).tolist(), numpy.asarray(outs[1]).tolist()))
                                        break
                                except Exception as e:  # noqa
                                    report("shared-args", call, "%s raised %r" % (stat, e))
                                    break
                            record("shared-args", call, True, multi)

    # ---------------- quantile
    if want("quantile"):
        for cols in ([0], [0, 1]):
            K = len(cols)
            for pat in patterns(N, K, fl):
                zero_specs = []
                if N >= 2 and K == 1:
                    for i in range(N):
                        zero_specs.append(("array", tuple("Z" if j == i else "P" for j in range(N)), "nan"))
                        zero_specs.append(("array", tuple("M" if j == i else "P" for j in range(N)), "pair-zero"))
                for ws in wspecs(N, wl, scalar=True) + zero_specs:
                    for ignore in (False, True):
                        probs = PROBS if (ws[0] == "none" or wl >= 2) else [0.1, 0.5, 1.0]
                        for p in probs:
                            for oned in ([True] if K == 1 else [False]):
                                form = "nan" if ws[0] != "scalar" else "pair-nan"
                                call = {"cols": cols, "pattern": pat, "form": form, "weights": ws, "ignore": ignore, "p": p, "oned": oned}
                                if only is not None and _js(call) != only["call"]:
                                    continue
                                _, x, valid = fact_arg(N, cols, pat, form)
                                _, w, wok = Q.make_weights(N, ws)

                                def args(scale=1.0):
                                    a, _, _ = fact_arg(N, cols, pat, form)
                                    wa, _, _ = Q.make_weights(N, ws)
                                    if scale != 1.0 and wa is not None:
                                        wa = wa * scale if not isinstance(wa, tuple) else (wa[0] * scale, wa[1])
                                    return (flat1(a) if oned else a, p, wa, ignore)

                                try:
                                    v, m, fmsg = get_both(mk, "quantile", args, {})
                                    acc.count("evals", 2)
                                    if ws[0] != "none":
                                        r3 = mk().quantile(*args(3.0), return_missing_as=(0, False))
                                        v3, m3 = numpy.asarray(r3[0]), ~numpy.asarray(r3[1]).astype(bool)
                                        acc.count("evals", 1)
                                except Exception as e:  # noqa
                                    report("quantile", call, "raised %r" % (e,))
                                    continue
                                if fmsg:
                                    report("quantile", call, fmsg)
                                anym = False
                                for coords in coords_list:
                                    rows = cells.get(coords, [])
                                    for k in range(K):
                                        ex = () if oned else (k,)
                                        gm = bool(cellidx(m, coords, ex))
                                        gv = float(cellidx(v, coords, ex))
                                        good = usable(rows, valid, k, wok)
                                        em = rule_missing(rows, good, ignore)
                                        anym = anym or em
                                        if ws[0] == "array" and "Z" in ws[1]:
                                            # zero weights: only the missing rule is claimed (a zero weight can make the interpolation 0/0)
                                            if em and not gm:
                                                report("quantile", call, "cell %r col %d has a missing row (rule says missing) but %r was returned" % (coords, k, gv))
                                            continue
                                        if em != gm:
                                            report("quantile", call, "cell %r col %d missing=%r, rule says %r (value %r)" % (coords, k, gm, em, gv))
                                            continue
                                        if em:
                                            continue
                                        if ws[0] == "none":
                                            exp = o_quantile(rows, x, valid, k, ignore, p)
                                            if not close(gv, exp):
                                                report("quantile", call, "cell %r col %d = %r, expected %r" % (coords, k, gv, exp))
                                        else:
                                            vals = [x[r][k] for r in good]
                                            if not (min(vals) - 1e-9 <= gv <= max(vals) + 1e-9):
                                                report("quantile", call, "cell %r col %d = %r outside [%r, %r]" % (coords, k, gv, min(vals), max(vals)))
                                            g3m = bool(cellidx(m3, coords, ex))
                                            g3 = float(cellidx(v3, coords, ex))
                                            if g3m != gm or (not gm and not close(g3, gv)):
                                                report("quantile", call, "cell %r col %d: weights x3 gives %r (missing=%r), weights x1 gives %r" % (coords, k, g3, g3m, gv))
                                record("quantile", call, anym, multi)

    # ---------------- min / max
    if want("min") or want("max"):
        for form in ("nan", "pair-huge", "int", "datetime", "datetime-nat", "uint8", "uint16", "uint64", "int16", "int32", "float32"):
            for pat in patterns(N, 1, fl):
                for ignore in (False, True):
                    for stat, op in (("min", min), ("max", max)):
                        if not want(stat):
                            continue
                        call = {"form": form, "pattern": pat, "ignore": ignore}
                        if only is not None and _js(call) != only["call"]:
                            continue
                        _, x, valid = fact_arg(N, [0], pat, form)
                        if form in ("datetime", "datetime-nat"):
                            fmts = [(numpy.datetime64("NaT"), False)]
                        else:
                            fmts = [NaN, (0, False)]
                        res = []
                        try:
                            for fmt in fmts:
                                a, _, _ = fact_arg(N, [0], pat, form)
                                r = getattr(mk(), stat)(flat1(a), ignore, fmt)
                                acc.count("evals", 1)
                                if isinstance(fmt, tuple):
                                    res.append((numpy.asarray(r[0]), ~numpy.asarray(r[1]).astype(bool)))
                                else:
                                    rr = numpy.asarray(r)
                                    res.append((rr, numpy.isnan(rr.astype(float))))
                        except Exception as e:  # noqa
                            report(stat, call, "raised %r" % (e,))
                            continue
                        anym = False
                        for fi, (v, m) in enumerate(res):
                            for coords in coords_list:
                                exp = o_minmax(cells.get(coords, []), x, valid, ignore, op)
                                gm = bool(cellidx(m, coords))
                                if exp is None:
                                    anym = True
                                    if not gm:
                                        report(stat, call, "format %d: cell %r should be missing" % (fi, coords))
                                elif gm:
                                    report(stat, call, "format %d: cell %r reported missing, expected %r" % (fi, coords, exp))
                                else:
                                    gv = cellidx(v, coords)
                                    if form in ("datetime", "datetime-nat"):
                                        gvf = float((gv - numpy.datetime64("2020-01-01", "D")) / numpy.timedelta64(1, "D"))
                                    else:
                                        gvf = float(gv)
                                    if not close(gvf, exp):
                                        report(stat, call, "format %d: cell %r = %r, expected %r" % (fi, coords, gv, exp))
                        record(stat, call, anym, multi)

    # ---------------- covariance / corrcoef
    for stat in ("covariance", "corrcoef"):
        if not want(stat):
            continue
        colsets = [[0, 1], [0, 1, 2]] if stat == "covariance" else [[0, 1], [0, 1, 2], [0, "c"]]
        for cols in colsets:
            K = len(cols)
            if K == 3 and N >= 4 and fl < 2:
                pats = patterns(N, K, 0)
            else:
                pats = patterns(N, K, min(fl, 1))
            for pat in pats:
                for ws in (wspecs(N, wl) if stat == "covariance" else [("none",)]):
                    for ignore in (False, True):
                        form = "nan" if ws[0] == "none" else "pair-huge"
                        call = {"cols": cols, "pattern": pat, "form": form, "weights": ws, "ignore": ignore}
                        if only is not None and _js(call) != only["call"]:
                            continue
                        _, x, valid = fact_arg(N, cols, pat, form)
                        _, w, wok = Q.make_weights(N, ws)

                        def args():
                            a, _, _ = fact_arg(N, cols, pat, form)
                            wa, _, _ = Q.make_weights(N, ws)
                            return (a, wa, ignore)

                        try:
                            v, m, fmsg = get_both(mk, stat, args, {})
                        except Exception as e:  # noqa
                            report(stat, call, "raised %r" % (e,))
                            continue
                        acc.count("evals", 2)
                        if fmsg:
                            report(stat, call, fmsg)
                        want_shape = shape + (K, K)
                        if tuple(numpy.asarray(v).shape) != tuple(want_shape):
                            report(stat, call, "result shape %r, expected %r" % (numpy.asarray(v).shape, want_shape))
                            continue
                        anym = False
                        for coords in coords_list:
                            rows = cells.get(coords, [])
                            for i in range(K):
                                for j in range(K):
                                    if stat == "covariance":
                                        exp = o_cov_entry(rows, x, valid, i, j, w, wok, ignore, K)
                                    else:
                                        exp = o_corr_entry(rows, x, valid, i, j, ignore, K)
                                    gm = bool(cellidx(m, coords, (i, j)))
                                    if exp[0] == "skip":
                                        continue
                                    if exp[0] == "missing":
                                        anym = True
                                        if not gm:
                                            report(stat, call, "cell %r entry (%d,%d) should be missing, got %r" % (coords, i, j, float(cellidx(v, coords, (i, j)))))
                                    elif gm:
                                        report(stat, call, "cell %r entry (%d,%d) reported missing, expected %r" % (coords, i, j, exp[1]))
                                    elif not close(float(cellidx(v, coords, (i, j))), exp[1]):
                                        report(stat, call, "cell %r entry (%d,%d) = %r, expected %r" % (coords, i, j, float(cellidx(v, coords, (i, j))), exp[1]))
                        record(stat, call, anym, multi)


# dimension arrays in a narrow SIGNED dtype on a cube whose cell count sits in the upper half of the matching unsigned range
NARROW_DIMS = [(numpy.int8, (2, 100), [[0, 1], [0, 99]]), (numpy.int16, (2, 20000), [[0, 1], [0, 19999]]), (numpy.uint8, (2, 100), [[0, 1], [0, 99]])]


def check_narrow_dims(i, acc):
    """min / max / stddev / covariance on NARROW_DIMS[i], compared sparsely with the per-cell statistic."""
    from catii.xcubes import xcube

    dt, shape, vals = NARROW_DIMS[i]
    N = 3
    total = shape[0] * shape[1]
    for datas in itertools.product(*[list(itertools.product(v, repeat=N)) for v in vals]):
        denses = [numpy.array(t, dtype=dt) for t in datas]
        cells = M.cell_rows([d.astype(numpy.int64) for d in denses], shape, N)
        base = {"narrow_dims": i, "dtype": numpy.dtype(dt).name, "shape": list(shape), "data": [list(t) for t in datas]}
        f1, x1, v1 = fact_arg(N, [0], (False,) * N, "nan")
        f2, x2, v2 = fact_arg(N, [0, 1], (False,) * (2 * N), "nan")
        for stat, thunk, exp_of in (
            ("min", lambda: xcube(denses, interacting_shape=shape).min(flat1(fact_arg(N, [0], (False,) * N, "nan")[0]), False, (0, False)), lambda rows: min(x1[r][0] for r in rows)),
            ("max", lambda: xcube(denses, interacting_shape=shape).max(flat1(fact_arg(N, [0], (False,) * N, "nan")[0]), False, (0, False)), lambda rows: max(x1[r][0] for r in rows)),
            ("stddev", lambda: xcube(denses, interacting_shape=shape).stddev(flat1(fact_arg(N, [0], (False,) * N, "nan")[0]), None, True, (0, False)), lambda rows: o_stddev(rows, x1, v1, 0, None, None, True)),
        ):
            try:
                v, ok = thunk()
            except Exception as e:  # noqa
                acc.violation("xcube:%s" % stat, dict(base, stat=stat), "raised %r" % (e,))
                continue
            acc.count("evals", 1)
            v, miss = numpy.asarray(v), ~numpy.asarray(ok).astype(bool)
            want = {c: exp_of(rows) for c, rows in cells.items()}
            want = {c: e for c, e in want.items() if e is not None}
            if tuple(v.shape) != tuple(shape) or int((~miss).sum()) != len(want):
                acc.violation("xcube:%s" % stat, dict(base, stat=stat), "%d non-missing cells (shape %r), expected %d at %r" % (int((~miss).sum()), v.shape, len(want), sorted(want)))
                continue
            for c, e in want.items():
                if bool(miss[c]) or not close(float(v[c]), e):
                    acc.violation("xcube:%s" % stat, dict(base, stat=stat), "cell %r = %r (missing %r), expected %r" % (c, float(v[c]), bool(miss[c]), e))
                    break
        acc.case(("narrow", i, datas), nontrivial=len(cells) > 1, outcome=("narrow", i), sample=lambda: base)


# ONE dimension with many categories (the cube's coordinates are then held in the narrowest unsigned dtype) under a fact with several columns:
# anything that folds the column number into the cell number must not do so in the narrow dtype
WIDE1 = [100, 129, 200, 255, 256, 300]


def check_wide1(E, acc):
    from catii.xcubes import xcube

    N, K = 4, 3
    f3, x3, v3 = fact_arg(N, [0, 1, 2], (False,) * (N * K), "nan")
    w = [0.5, 1.0, 2.0, 4.0]
    for data in itertools.product((0, E // 2, E - 1), repeat=N):
        base = {"wide1": E, "data": list(data)}
        cells = M.cell_rows([numpy.array(data, dtype=numpy.int64)], (E,), N)
        for dt in (numpy.int64, numpy.uint16 if E > 256 else numpy.uint8):
            dense = numpy.array(data, dtype=dt)

            def cube():
                return xcube([dense], interacting_shape=(E,))

            calls = [
                ("stddev", lambda: cube().stddev(fact_arg(N, [0, 1, 2], (False,) * (N * K), "nan")[0], None, True, (0, False)), lambda rows, k: o_stddev(rows, x3, v3, k, None, None, True)),
                ("stddev-w", lambda: cube().stddev(fact_arg(N, [0, 1, 2], (False,) * (N * K), "nan")[0], numpy.array(w), True, (0, False)), lambda rows, k: o_stddev(rows, x3, v3, k, w, None, True)),
                ("quantile", lambda: cube().quantile(fact_arg(N, [0, 1, 2], (False,) * (N * K), "nan")[0], 0.5, None, True, (0, False)), lambda rows, k: o_quantile(rows, x3, v3, k, True, 0.5)),
                ("mean", lambda: cube().mean(fact_arg(N, [0, 1, 2], (False,) * (N * K), "nan")[0], None, True, (0, False)), lambda rows, k: sum(x3[r][k] for r in rows) / len(rows)),
                ("sum", lambda: cube().sum(fact_arg(N, [0, 1, 2], (False,) * (N * K), "nan")[0], numpy.array(w), True, (0, False)), lambda rows, k: sum(w[r] * x3[r][k] for r in rows)),
            ]
            for stat, thunk, exp_of in calls:
                try:
                    v, ok = thunk()
                except Exception as e:  # noqa
                    acc.violation("xcube:%s" % stat, dict(base, stat=stat, dtype=numpy.dtype(dt).name), "raised %r" % (e,))
                    continue
                acc.count("evals", 1)
                v, miss = numpy.asarray(v), ~numpy.asarray(ok).astype(bool)
                want = {(c[0], k): exp_of(rows, k) for c, rows in cells.items() for k in range(K)}
                want = {c: e for c, e in want.items() if e is not None}
                if tuple(v.shape) != (E, K) or int((~miss).sum()) != len(want):
                    acc.violation("xcube:%s" % stat, dict(base, stat=stat, dtype=numpy.dtype(dt).name), "%d non-missing entries (shape %r), expected %d at %r" % (int((~miss).sum()), v.shape, len(want), sorted(want)))
                    continue
                for c, e in want.items():
                    if bool(miss[c]) or not close(float(v[c]), e):
                        acc.violation("xcube:%s" % stat, dict(base, stat=stat, dtype=numpy.dtype(dt).name), "cell %r column %d = %r (missing %r), expected %r" % (c[0], c[1], float(v[c]), bool(miss[c]), e))
                        break
        acc.case(("wide1", E, data), nontrivial=len(cells) > 1, outcome=("wide1", E, len(cells)), sample=lambda: base)


def check_weight_invariances(acc, only=None):
    """Weighted statistics do not depend on the SCALE of the weights (all weights x 1e-14 .. 1e8), and the weighted quantile treats a negative
    weight as zero whether or not another weight is missing: library against library (and against the exact oracle for stddev)."""
    from catii.xcubes import xcube

    N = 4
    w0 = numpy.array([0.5, 1.0, 2.0, 4.0])
    f1, x1, v1 = fact_arg(N, [0], (False,) * N, "nan")
    f2, x2, v2 = fact_arg(N, [0, 1], (False,) * (2 * N), "nan")
    fmt = (0, False)

    def same(a, b):
        av, ao = numpy.asarray(a[0], dtype=float), numpy.asarray(a[1]).astype(bool)
        bv, bo = numpy.asarray(b[0], dtype=float), numpy.asarray(b[1]).astype(bool)
        return av.shape == bv.shape and numpy.array_equal(ao, bo) and numpy.allclose(av[ao], bv[bo], rtol=1e-9, atol=0)

    for data in itertools.product(range(2), repeat=N):
        dense = numpy.array(data, dtype=numpy.int64)
        mk = lambda: xcube([dense], interacting_shape=(3,))  # noqa
        stats = [
            ("stddev", lambda w: mk().stddev(flat1(fact_arg(N, [0], (False,) * N, "nan")[0]), w, True, fmt)),
            ("stddev-2col", lambda w: mk().stddev(fact_arg(N, [0, 1], (False,) * (2 * N), "nan")[0], w, True, fmt)),
            ("quantile", lambda w: mk().quantile(flat1(fact_arg(N, [0], (False,) * N, "nan")[0]), 0.5, w, True, fmt)),
            ("covariance", lambda w: mk().covariance(fact_arg(N, [0, 1], (False,) * (2 * N), "nan")[0], w, True, fmt)),
            ("mean", lambda w: mk().mean(flat1(fact_arg(N, [0], (False,) * N, "nan")[0]), w, True, fmt)),
        ]
        for stat, fn in stats:
            case = {"weight_invariance": stat, "data": list(data)}
            if only is not None and (only.get("weight_invariance"), only.get("data")) != (stat, list(data)):
                continue
            try:
                base = fn(w0.copy())
                for scale in (1e-14, 1e-10, 1e-3, 1e8):
                    got = fn(w0 * scale)
                    acc.count("evals", 1)
                    if not same(got, base):
                        acc.violation("xcube:%s" % stat.split("-")[0], dict(case, scale=scale), "with all weights x %g: %r / validity %r; with weights x 1: %r / %r" % (
                            scale, numpy.asarray(got[0]).tolist(), numpy.asarray(got[1]).astype(int).tolist(), numpy.asarray(base[0]).tolist(), numpy.asarray(base[1]).astype(int).tolist()))
                        break
            except Exception as e:  # noqa
                acc.violation("xcube:%s" % stat.split("-")[0], case, "raised %r" % (e,))
        # negative weights in the weighted quantile == zero weights, with and without a missing weight elsewhere
        for neg_at in range(N):
            for nan_at in [None] + [i for i in range(N) if i != neg_at]:
                for ignore in (False, True):
                    for p in (0.0, 0.5):
                        case = {"weight_invariance": "quantile-negative", "data": list(data), "negative_at": neg_at, "missing_at": nan_at, "ignore": ignore, "p": p}
                        if only is not None and {k: only.get(k) for k in case} != case:
                            continue
                        wn, wz = w0.copy(), w0.copy()
                        wn[neg_at], wz[neg_at] = -3.0, 0.0
                        if nan_at is not None:
                            wn[nan_at] = wz[nan_at] = NaN
                        try:
                            a = mk().quantile(flat1(fact_arg(N, [0], (False,) * N, "nan")[0]), p, wn, ignore, fmt)
                            b = mk().quantile(flat1(fact_arg(N, [0], (False,) * N, "nan")[0]), p, wz, ignore, fmt)
                            acc.count("evals", 2)
                        except Exception as e:  # noqa
                            acc.violation("xcube:quantile", case, "raised %r" % (e,))
                            continue
                        if not same(a, b):
                            acc.violation("xcube:quantile", case, "negative weight: %r / %r; the same weight as 0: %r / %r" % (
                                numpy.asarray(a[0]).tolist(), numpy.asarray(a[1]).astype(int).tolist(), numpy.asarray(b[0]).tolist(), numpy.asarray(b[1]).astype(int).tolist()))
        acc.case(("winv", data), nontrivial=len(set(data)) > 1, outcome=("winv",), sample=lambda: {"weight_invariance": True, "data": list(data)})


def blocks(tier):
    out = [("narrow-dims", {"i": i}) for i in range(len(NARROW_DIMS))] + [("wide1", {"E": E}) for E in WIDE1] + [("weight-invariance", {})]
    for si, cfg in enumerate(SETS[tier]):
        for N in cfg["Ns"]:
            D = cfg["D"]
            ndata = (E ** N) ** D
            for a in range(ndata):
                for stat in ("stddev", "quantile", "minmax", "covariance", "corrcoef"):
                    out.append(("set", {"tier": tier, "si": si, "N": N, "a": a, "stat": stat}))
    return out


def run_block(family, p, acc):
    if family == "wide1":
        check_wide1(p["E"], acc)
        return
    if family == "weight-invariance":
        check_weight_invariances(acc)
        return
    if family == "narrow-dims":
        check_narrow_dims(p["i"], acc)
        return
    cfg = SETS[p["tier"]][p["si"]]
    N, D = p["N"], cfg["D"]
    vecs = list(itertools.product(range(E), repeat=N))
    datas = list(itertools.islice(itertools.product(vecs, repeat=D), p["a"], p["a"] + 1))[0]
    stats = ["min", "max"] if p["stat"] == "minmax" else [p["stat"]]
    for st in stats:
        check_data(list(datas), N, cfg, acc, only={"stat": st, "call": None} if False else _OnlyStat(st))


class _OnlyStat(dict):
    """only-filter that selects a statistic but every call of it."""

    def __init__(self, stat):
        super().__init__(stat=stat)

    def __getitem__(self, k):
        if k == "call":
            return _ANY
        return super().__getitem__(k)


class _Any:
    def __eq__(self, other):
        return True

    def __ne__(self, other):
        return False


_ANY = _Any()


def replay(case, site=None):
    from ..core import Acc

    acc = Acc(ID, [], stop_at_first=False)
    if "weight_invariance" in case or "wide1" in case:
        if "weight_invariance" in case:
            check_weight_invariances(acc, only=case)
        else:
            check_wide1(case["wide1"], acc)
        for v in acc.violations[:5]:
            print("  %s :: %s" % (v["site"], v["detail"][:400]))
        return bool(acc.violations)
    elif "narrow_dims" in case:
        check_narrow_dims(case["narrow_dims"], acc)
        for v in acc.violations[:5]:
            print("  %s :: %s" % (v["site"], v["detail"][:400]))
        return bool(acc.violations)
    datas = [tuple(t) for t in case["data"]]
    for wl in (0, 1, 2):
        for fl in (0, 1, 2):
            if not acc.evaluations:
                check_data(datas, case["N"], dict(wl=wl, fl=fl), acc, only={"stat": case["stat"], "call": case["call"]})
    for v in acc.violations[:10]:
        print("  %s :: %s" % (v["site"], v["detail"][:500]))
    return bool(acc.violations)
