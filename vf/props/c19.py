"""C19: fit_dtype picks a wide-enough and narrowest integer dtype.

The function is piecewise constant on the partition of the (max, min) plane induced by the
constants it compares against (checked on its AST).  The grid contains every such constant +-1,
every +-2^k and +-2^k+-1 (k<=64) and an interior point of every gap, so every cell, edge and
corner of the partition (and of the oracle's partition) is visited.
"""
import ast
import inspect
import textwrap

import numpy

ID = "C19"
LEVEL = "exploration"

SIGNED = [numpy.int8, numpy.int16, numpy.int32, numpy.int64]
UNSIGNED = [numpy.uint8, numpy.uint16, numpy.uint32, numpy.uint64]


def oracle(lo, hi):
    """Narrowest NumPy integer dtype of the required signedness containing [lo, hi] (None if none)."""
    fam = SIGNED if lo < 0 else UNSIGNED
    for t in fam:
        ii = numpy.iinfo(t)
        if ii.min <= lo and hi <= ii.max:
            return numpy.dtype(t)
    return None


def _fold(node):
    if isinstance(node, ast.Constant) and isinstance(node.value, int):
        return node.value
    if isinstance(node, ast.UnaryOp) and isinstance(node.op, (ast.USub, ast.UAdd)):
        v = _fold(node.operand)
        return None if v is None else (-v if isinstance(node.op, ast.USub) else v)
    if isinstance(node, ast.BinOp):
        l, r = _fold(node.left), _fold(node.right)
        if l is None or r is None:
            return None
        if isinstance(node.op, ast.Pow):
            return l ** r if 0 <= r <= 128 else None
        if isinstance(node.op, ast.Add):
            return l + r
        if isinstance(node.op, ast.Sub):
            return l - r
        if isinstance(node.op, ast.Mult):
            return l * r
        if isinstance(node.op, ast.LShift):
            return l << r if 0 <= r <= 128 else None
    return None


def analyse():
    """Return (constants, threshold_only: bool, notes)."""
    import catii.iindexes as ii

    src = textwrap.dedent(inspect.getsource(ii.fit_dtype))
    tree = ast.parse(src)
    fn = tree.body[0]
    params = {a.arg for a in fn.args.args}
    consts = set()
    ok = True
    notes = []
    for node in ast.walk(fn):
        if isinstance(node, ast.Compare):
            sides = [node.left] + list(node.comparators)
            for s in sides:
                if isinstance(s, ast.Name) and s.id in params:
                    continue
                v = _fold(s)
                if v is None:
                    ok = False
                    notes.append("non-constant comparison operand: %s" % ast.dump(s)[:80])
                else:
                    consts.add(v)
        elif isinstance(node, ast.Constant) and isinstance(node.value, int):
            pass
        elif isinstance(node, (ast.Call,)):
            f = node.func
            name = f.attr if isinstance(f, ast.Attribute) else getattr(f, "id", "?")
            if name not in ("dtype",):
                ok = False
                notes.append("call to %s inside fit_dtype: not a pure threshold ladder" % name)
        elif isinstance(node, (ast.For, ast.While)):
            ok = False
            notes.append("loop inside fit_dtype")
    # any other integer constant anywhere (e.g. in arithmetic on the parameters) joins the grid
    for node in ast.walk(fn):
        v = _fold(node) if isinstance(node, (ast.BinOp, ast.UnaryOp, ast.Constant)) else None
        if isinstance(v, int) and not isinstance(v, bool):
            consts.add(v)
    return sorted(consts), ok, notes


def grid(consts):
    B = {0, 1, -1}
    for c in consts:
        B.update((c - 1, c, c + 1))
    for k in range(0, 65):
        p = 2 ** k
        B.update((p - 1, p, p + 1, -p - 1, -p, -p + 1))
    s = sorted(B)
    for a, b in zip(s, s[1:]):
        if b - a > 1:
            B.add((a + b) // 2)
    return sorted(B)


def describe(tier):
    consts, ok, notes = analyse()
    return {
        "rule": "all (max,min) in B x B with min<=0, min<=max, representable by some NumPy integer type, plus the one-argument form for every "
        "max in B (incl. negative); B = {c-1,c,c+1 for each constant c in fit_dtype's AST} u {+-2^k, +-2^k+-1, k<=64} u {0,+-1} u one interior point "
        "per gap. Plus the caller whose counter must reach the number of columns: collapsed() on indexes with %r columns (rows: all low / all common / one high among low / one common among low / one high among common / alternating), "
        "nine value triples (incl. negative and large common values) and five precedence orders, against 'first listed value present in the row, else the last'; and the INDX coordinate word of files whose largest coordinate and common value run independently over %r (the word must be the narrowest that holds both). Non-trivial: min < 0 < max (both arguments decide) or a one-argument negative max. Oracle: narrowest numpy.iinfo type of the required signedness." % (COLLAPSE_COLS[tier], [str(v) for v in INDX_VALUES]),
        "bounds": {"ast_constants": [str(c) for c in consts], "threshold_only": ok, "notes": notes, "grid_size": len(grid(consts))},
        "exhaustive": True,
        "assumptions": [
            ("fit_dtype only compares its parameters with constants (AST-checked: %s), so it is constant on every cell of the grid's partition" % ok)
            if ok else "AST check FAILED (%s): the claim is downgraded to 'all grid points'" % "; ".join(notes),
        ],
    }


def blocks(tier):
    consts, ok, notes = analyse()
    B = grid(consts)
    n = len(B)
    step = max(1, n // 32)
    out = [("two", {"i0": i, "i1": min(n, i + step)}) for i in range(0, n, step)]
    out.append(("one", {}))
    out += [("collapse", {"cols": c}) for c in COLLAPSE_COLS[tier]]
    out.append(("indx-words", {}))
    out.append(("dense-after-change", {}))
    return out


# The first caller named in the statement, over the LIFE of an index: the dtype of the dense output must fit (and be the narrowest for) what the
# index holds NOW, after entry-wise changes that bring in or take away a wide or negative value.
WIDE_VALUES = [1, 200, 255, 256, 300, 65535, 65536, 70000, -1, -129, -40000]


def check_dense_after_change(acc):
    from catii.iindexes import iindex

    def expect_dtype(vals):
        return oracle(min(list(vals) + [0]), max(list(vals) + [0]))

    def observe(idx, dense, case, step):
        try:
            out = idx.to_array()
        except Exception as e:  # noqa
            acc.violation("to_array:raised-after-change", dict(case, step=step), repr(e))
            return False
        if out.tolist() != dense:
            acc.violation("to_array:values-after-change", dict(case, step=step), "got %r expected %r" % (out.tolist(), dense))
            return False
        want = expect_dtype(dense + [idx.common])
        if numpy.dtype(out.dtype) != want:
            kind = "too narrow / wrong signedness" if not (numpy.iinfo(out.dtype).min <= min(dense + [idx.common]) and max(dense + [idx.common]) <= numpy.iinfo(out.dtype).max) else "wider than needed"
            acc.violation("to_array:dtype-after-change", dict(case, step=step), "dense output dtype %s for values %r (common %r): %s, %s expected" % (out.dtype, sorted(set(dense)), idx.common, kind, want))
            return False
        return True

    for v in WIDE_VALUES:
        for how in ("union_update", "setitem", "set_if", "update"):
            case = {"dense_after_change": True, "value": v, "how": how}
            dense = [0, 1, 0, 2, 0]
            idx = iindex({(1,): numpy.array([1], dtype=numpy.uint32), (2,): numpy.array([3], dtype=numpy.uint32)}, 0, (5,))
            if not observe(idx, dense, case, "built"):
                continue
            rows = numpy.array([0, 4], dtype=numpy.uint32)
            try:
                if how == "union_update":
                    idx.union_update({(v,): rows}) if v != 1 else idx.union_update({(7,): rows})
                elif how == "setitem":
                    idx[(v if v != 1 else 7,)] = rows
                elif how == "set_if":
                    idx.set_if((v if v != 1 else 7,), rows)
                else:
                    idx.update({(v if v != 1 else 7,): rows})
            except Exception as e:  # noqa
                acc.violation("to_array:raised-after-change", dict(case, step="bring in"), repr(e))
                continue
            vv = v if v != 1 else 7
            dense2 = [vv, 1, 0, 2, vv]
            if not observe(idx, dense2, case, "after bringing the value in"):
                continue
            try:
                if how in ("union_update", "update"):
                    idx.difference_update({(vv,): rows})
                elif how == "setitem":
                    del idx[(vv,)]
                else:
                    idx.set_if((vv,), None)
            except Exception as e:  # noqa
                acc.violation("to_array:raised-after-change", dict(case, step="take away"), repr(e))
                continue
            observe(idx, dense, case, "after taking the value away again")
            acc.case(("dense-after", v, how), nontrivial=True, outcome=("dense-after", str(expect_dtype(dense2))), sample=case)


def check_mapped_dense(acc):
    """Dense output read back through a value mapping: the chosen dtype must hold every value that ends up in the array - the mapped listed
    values, the mapped common value, or whatever the library puts in common cells the mapping does not mention - without wrap-around or error,
    and when the mapping mentions every value it must be the narrowest dtype that holds the mapped values."""
    from catii.iindexes import iindex

    commons = [0, 3, 200, 255, 256, 300, 65535, 65536, 70000, 2 ** 32, -1, -129, -40000]
    targets = [(10, 20), (255, 1), (256, 1), (65536, 7), (-1, 5), (-129, 127), (2 ** 32, 0)]
    for c in commons:
        for t1, t2 in targets:
            for mention_common, ct in ((False, None), (True, 9), (True, 300), (True, -5), (True, 70000)):
                case = {"mapped_dense": True, "common": c, "targets": [t1, t2], "common_target": ct}
                idx = iindex({(1,): numpy.array([1], dtype=numpy.uint32), (2,): numpy.array([3], dtype=numpy.uint32)}, c, (5,)) if c not in (1, 2) else None
                m = {1: t1, 2: t2}
                if mention_common:
                    m[c] = ct
                try:
                    out = idx.to_array(mapping=dict(m))
                except Exception as e:  # noqa
                    acc.violation("to_array:mapped-raised", case, "to_array(mapping=%r) on common %r raised %r" % (m, c, e))
                    continue
                got = out.tolist()
                fills = {got[0], got[2], got[4]}
                ok_fill = fills == {ct} if mention_common else (len(fills) == 1 and fills <= {0, c})
                if got[1] != t1 or got[3] != t2 or not ok_fill:
                    acc.violation("to_array:mapped-values", case, "to_array(mapping=%r) on common %r = %r" % (m, c, got))
                    continue
                if mention_common:
                    vals = [t1, t2, ct]
                    want = oracle(min(vals + [0]), max(vals + [0]))
                    if numpy.dtype(out.dtype) != want:
                        acc.violation("to_array:mapped-dtype", case, "dtype %s for mapped values %r, expected %s" % (out.dtype, vals, want))
                acc.case(("mapped-dense", c, t1, t2, ct), nontrivial=True, outcome=("mapped-dense", str(out.dtype)), sample=case)


# The third caller named in the statement: the INDX coordinate word must hold the largest coordinate AND the common value, and be the narrowest that does.
INDX_VALUES = [0, 1, 255, 256, 65535, 65536, 2 ** 32 - 1, 2 ** 32, 2 ** 63 - 1]


def check_indx_words(acc):
    import struct

    from .. import indx

    for cmax in INDX_VALUES:
        for common in INDX_VALUES:
            for keys in ([(cmax,)], [(0, cmax)], [(cmax, 0), (1, 1)], [(1,), (cmax,)], []):
                if len(set(keys)) < len(keys):
                    continue
                arrays = [[0, 2]] * len(keys)
                case = {"indx_words": True, "keys": [list(k) for k in keys], "common": str(common)}
                need = indx.narrowest(max([common] + [c for k in keys for c in k]))
                try:
                    blob = indx.lib_save(keys, arrays, common)
                except Exception as e:  # noqa
                    acc.violation("indx:save-raised", case, repr(e))
                    continue
                word = blob[16 + 1 + 4]
                if word != need:
                    acc.violation("indx:coordinate-word", case, "INDX index word size %d for largest coordinate %d and common %d: %s" % (word, max([0] + [c for k in keys for c in k]), common, "too narrow" if word < need else "wider than needed"))
                else:
                    try:
                        dk, da, dc, iw, rw, size = indx.decode(blob)
                        if dc != common or (keys and dk != [tuple(k) for k in keys]):
                            acc.violation("indx:coordinate-word", case, "file decodes to common %r keys %r" % (dc, dk))
                    except Exception as e:  # noqa
                        acc.violation("indx:undecodable", case, repr(e))
                acc.case(("indx", cmax, common, len(keys)), nontrivial=need > 1, outcome=("indx", need), sample=case)



# The caller named in the statement whose counter must reach the NUMBER OF COLUMNS: collapsed() on indexes whose column count sits on a dtype boundary.
COLLAPSE_COLS = {"quick": [2, 127, 128, 129, 255, 256, 257], "thorough": [2, 127, 128, 129, 255, 256, 257, 32767, 32768, 65535, 65536, 65537]}
COLLAPSE_VALUES = [(1, 0, -1), (2, 0, 1), (1, 0, 200), (-1, 0, -2), (300, 5, 7), (1, -1, 0), (1, 300, 2), (0, -200, 1), (2, 70000, 1)]   # (high, common, low)


def check_collapse(cols, acc):
    import itertools

    from catii.iindexes import iindex

    for H, C, L in COLLAPSE_VALUES:
        # rows: all L / all common / one H among L / one common among L / one H among common / half L half common
        rows = [
            {c: L for c in range(cols)},
            {},
            {c: (H if c == cols // 2 else L) for c in range(cols)},
            {c: L for c in range(cols) if c != cols - 1},
            {0: H},
            {c: L for c in range(0, cols, 2)},
        ]
        entries = {}
        for r, cells in enumerate(rows):
            for c, v in cells.items():
                entries.setdefault((v, c), []).append(r)
        entries = {k: numpy.array(v, dtype=numpy.uint32) for k, v in entries.items()}
        for prec in ([H, C, L], [H, L], [C, H, L], [L, C, H], [H, L, C]):
            case = {"collapse_cols": cols, "values": [H, C, L], "precedence": prec}
            idx = iindex(dict(entries), C, (len(rows), cols))
            try:
                got = idx.collapsed(list(prec)).to_array(dtype=numpy.int64).tolist()
            except Exception as e:  # noqa
                acc.violation("collapsed:raised", case, repr(e))
                continue
            want = []
            for cells in rows:
                present = set(cells.values()) | ({C} if len(cells) < cols else set())
                want.append(next((p for p in prec if p in present), prec[-1]))
            if got != want:
                acc.violation("collapsed:wrong", case, "collapsed(%r) over %d columns gives %r, expected %r" % (prec, cols, got, want))
            acc.case(("collapse", cols, H, C, L, tuple(prec)), nontrivial=cols > 2, outcome=("collapse", cols), sample=case)


def check(mx, mn, acc, one_arg=False):
    import catii.iindexes as ii

    if one_arg:
        lo, hi = min(mx, 0), max(mx, 0)
    else:
        lo, hi = mn, max(mx, mn)
        if mx < 0 and mn == 0:
            lo, hi = mx, 0
    want = oracle(lo, hi)
    if want is None:
        return False
    case = {"max": str(mx), "min": None if one_arg else str(mn)}
    try:
        got = ii.fit_dtype(mx) if one_arg else ii.fit_dtype(mx, mn)
    except Exception as e:  # noqa
        acc.violation("fit_dtype:raised", case, repr(e))
        return True
    got = numpy.dtype(got)
    if got.kind not in "iu":
        acc.violation("fit_dtype:not-integer", case, str(got))
        return True
    gi = numpy.iinfo(got)
    if not (gi.min <= lo and hi <= gi.max):
        acc.violation("fit_dtype:too-narrow", case, "chose %s for [%d, %d]" % (got, lo, hi))
    elif (got.kind == "i") != (lo < 0):
        acc.violation("fit_dtype:signedness", case, "chose %s for [%d, %d]" % (got, lo, hi))
    elif got != want:
        acc.violation("fit_dtype:wider-than-needed", case, "chose %s, %s suffices for [%d, %d]" % (got, want, lo, hi))
    return True


def run_block(family, p, acc):
    consts, ok, notes = analyse()
    B = grid(consts)
    if family == "collapse":
        check_collapse(p["cols"], acc)
        return
    if family == "indx-words":
        check_indx_words(acc)
        return
    if family == "dense-after-change":
        check_dense_after_change(acc)
        check_mapped_dense(acc)
        return
    if family == "two":
        for mx in B[p["i0"]:p["i1"]]:
            for mn in B:
                if mn > 0 or mn > mx:
                    continue
                if check(mx, mn, acc):
                    want = oracle(mn, max(mx, mn))
                    acc.case((mx, mn), nontrivial=(mn < 0 < mx), outcome=str(want), sample={"max": str(mx), "min": str(mn), "dtype": str(want)})
    else:
        for mx in B:
            if check(mx, None, acc, one_arg=True):
                acc.case(("one", mx), nontrivial=mx < 0, outcome=str(oracle(min(mx, 0), max(mx, 0))), sample={"max": str(mx)})


def replay(case, site=None):
    from ..core import Acc

    acc = Acc(ID, [], stop_at_first=False)
    if case.get("mapped_dense"):
        check_mapped_dense(acc)
        hits = [v for v in acc.violations if all(v["case"].get(k) == case.get(k) for k in ("common", "targets", "common_target"))]
        for v in hits:
            print("  %s %s :: %s" % (v["site"], v["case"], v["detail"]))
        return bool(hits)
    if case.get("dense_after_change"):
        check_dense_after_change(acc)
        hits = [v for v in acc.violations if v["case"].get("value") == case.get("value") and v["case"].get("how") == case.get("how")]
        for v in hits:
            print("  %s %s :: %s" % (v["site"], v["case"], v["detail"]))
        return bool(hits)
    if case.get("indx_words"):
        check_indx_words(acc)
        hits = [v for v in acc.violations if v["case"] == case]
        for v in hits:
            print("  %s %s :: %s" % (v["site"], v["case"], v["detail"]))
        return bool(hits)
    if "collapse_cols" in case:
        check_collapse(case["collapse_cols"], acc)
        for v in acc.violations:
            print("  %s %s :: %s" % (v["site"], v["case"], v["detail"]))
        return bool(acc.violations)
    mx = int(case["max"])
    if case.get("min") is None:
        check(mx, None, acc, one_arg=True)
    else:
        check(mx, int(case["min"]), acc)
    for v in acc.violations:
        print("  %s %s :: %s" % (v["site"], v["case"], v["detail"]))
    return bool(acc.violations)
